Require Import AS.Base.Prelude AS.Base.Hex AS.Base.Dec AS.Base.Utf8 AS.Base.Layout AS.Gen.Extracted AS.Model.Messages
  AS.Model.Bridge AS.Spec.Encoders AS.Proofs.HexSlices AS.Proofs.MessagesProofs AS.Proofs.BridgeProofs.
Open Scope N_scope.
Ltac Zify.zify_post_hook ::= Z.to_euclidean_division_equations.

(* ---- enum tables: a value decodes to its member ---- *)
Definition table_ok (t : list (string * string * string)) : bool :=
  forallb (fun '(n, v, _) => match lookup3 (s2l v) t with Some n' => String.eqb n n' | None => false end) t.
Lemma lookup3_member t n v d : table_ok t = true -> In (n, v, d) t -> lookup3 (s2l v) t = Some n.
Proof.
  unfold table_ok. rewrite forallb_forall. intros H Hin. specialize (H _ Hin). cbn in H.
  destruct (lookup3 (s2l v) t) as [n'|]; [|discriminate]. apply String.eqb_eq in H. congruence.
Qed.
Lemma modes_ok : table_ok thermostat_modes = true. Proof. vm_compute. reflexivity. Qed.
Lemma fans_ok : table_ok fan_levels = true. Proof. vm_compute. reflexivity. Qed.

Record breeze_wf (f1 id f2 f3 f4 ip mac f5 f6 remote f7 name : bytes) : Prop :=
  { w_f1 : length f1 = 16%nat; w_id : length id = 3%nat; w_f2 : length f2 = 19%nat; w_f3 : length f3 = 1%nat;
    w_f4 : length f4 = 1%nat; w_ip : length ip = 4%nat; w_mac : length mac = 6%nat; w_f5 : length f5 = 48%nat;
    w_f6 : length f6 = 2%nat; w_remote : length remote = 8%nat; w_f7 : length f7 = 17%nat;
    w_name_len : (length name <= 32)%nat; w_name_valid : utf8_valid name = true; w_name_last : last name 1 <> 0;
    w_remote_valid : utf8_valid remote = true }.

Theorem breeze_roundtrip (f1 id f2 : bytes) (key : N) (f3 name f4 ip mac f5 : bytes) (temp10 : N) (on : bool)
    (mode_name mode_value mode_disp : string) (mode_byte target : N) (fan_name fan_value fan_disp : string)
    (fan : N) (swing : bool) (f6 remote f7 : bytes) :
  breeze_wf f1 id f2 f3 f4 ip mac f5 f6 remote f7 name ->
  wf_bytes (concat (breeze_segs f1 id f2 key f3 (name ++ repeat 0 (32 - length name)) f4 ip mac f5 temp10
                      (if on then 1 else 0) mode_byte target (16 * fan + (if swing then 1 else 0)) f6 remote f7)) ->
  temp10 < 65536 -> target < 256 -> fan < 16 ->
  In (mode_name, mode_value, mode_disp) thermostat_modes -> hexlify [mode_byte] = s2l mode_value -> mode_byte < 256 ->
  In (fan_name, fan_value, fan_disp) fan_levels -> [hexdigit fan] = s2l fan_value ->
  parse_datagram false false
    (concat (breeze_segs f1 id f2 key f3 (name ++ repeat 0 (32 - length name)) f4 ip mac f5 temp10
               (if on then 1 else 0) mode_byte target (16 * fan + (if swing then 1 else 0)) f6 remote f7)) =
  Delivered (DThermostat "BREEZE" on (hexlify id) (hexlify [key]) (dotted ip) (mac_of mac) name mode_name
               temp10 target fan_name swing remote).
Proof.
  intros W Hwf Ht Htg Hfan Hmode Hmv Hmb Hfn Hfv.
  set (segs := breeze_segs f1 id f2 key f3 (name ++ repeat 0 (32 - length name)) f4 ip mac f5 temp10
                 (if on then 1 else 0) mode_byte target (16 * fan + (if swing then 1 else 0)) f6 remote f7) in *.
  set (m := concat segs) in *.
  destruct W as [L1 Lid L2 L3 L4 Lip Lmac L5 L6 Lrem L7 Lnl Lnv Lnlast Lrv].
  assert (Lname : length (name ++ repeat 0 (32 - length name)) = 32%nat) by (rewrite app_length, repeat_length; lia).
  (* byte-level slices: one segment k at [lo, hi) *)
  assert (S1 : forall k lo hi, (k < 20)%nat -> lo = offset segs k -> hi = (lo + length (nth k segs []))%nat ->
               pyslice lo hi m = nth k segs []).
  { intros k lo hi Hk Hlo Hhi. apply slice_segment; assumption. }
  assert (SR : forall k j lo hi, (k + j <= 20)%nat -> lo = offset segs k -> hi = offset segs (k + j) ->
               pyslice lo hi m = concat (firstn j (skipn k segs))).
  { intros k j lo hi Hk Hlo Hhi. apply slice_range; assumption. }
  (* hex-level slices *)
  assert (H1 : forall k lo hi lo2 hi2, (k < 20)%nat -> lo2 = (2*lo)%nat -> hi2 = (2*hi)%nat ->
               lo = offset segs k -> hi = (lo + length (nth k segs []))%nat ->
               pyslice lo2 hi2 (hexlify m) = hexlify (nth k segs [])).
  { intros k lo hi lo2 hi2 Hk -> -> Hlo Hhi. rewrite hexlify_slice. f_equal. apply S1; assumption. }
  assert (Hlen : length m = 168%nat).
  { unfold m, segs, breeze_segs. cbn [concat]. rewrite !app_length. cbn [length le16]. rewrite repeat_length. lia. }
  assert (Horig : is_switcher_originator m = true).
  { apply originator_iff; [exact Hwf|]. split; [reflexivity|right; left; exact Hlen]. }
  unfold parse_datagram. rewrite Horig. cbn [negb].
  (* device type *)
  rewrite (S1 7%nat 74%nat 76%nat) by (cbn [offset segs breeze_segs nth length]; rewrite ?L1, ?Lid, ?L2, ?L3, ?Lname; lia).
  cbn [nth segs breeze_segs].
  change (dt_by_hex (hexlify [14; 1])) with (Some ("BREEZE"%string, 2, "THERMOSTAT"%string)).
  cbv iota beta. change (String.eqb "BREEZE" "BREEZE") with true. cbv iota.
  (* state byte *)
  rewrite (S1 13%nat 137%nat 138%nat) by (cbn [offset segs breeze_segs nth length le16]; rewrite ?L1, ?Lid, ?L2, ?L3, ?Lname, ?L4, ?Lip, ?Lmac, ?L5; lia).
  cbn [nth segs breeze_segs].
  (* power: bytes 135..138 = temp, state, mode — always parses *)
  assert (Hpow : exists p, (if eqs (hexlify [if on then 1 else 0]) "01" then int16r (swap2 (pyslice 270 278 (hexlify m))) else Ok 0) = Ok p).
  { destruct (eqs (hexlify [if on then 1 else 0]) "01"); [|eexists; reflexivity].
    apply power_parses; [exact Hwf|lia]. }
  destruct Hpow as [p Hp]. rewrite Hp.
  (* name *)
  rewrite (S1 6%nat 42%nat 74%nat) by (cbn [offset segs breeze_segs nth length]; rewrite ?L1, ?Lid, ?L2, ?L3, ?Lname; lia).
  cbn [nth segs breeze_segs]. unfold decode_str.
  rewrite utf8_valid_pad by exact Lnv. cbn [bind]. rewrite rstrip0_pad by exact Lnlast.
  change (String.eqb "THERMOSTAT" "WATER_HEATER") with false.
  change (String.eqb "THERMOSTAT" "POWER_PLUG") with false.
  change (String.eqb "THERMOSTAT" "SHUTTER") with false.
  change (String.eqb "THERMOSTAT" "THERMOSTAT") with true. cbv iota.
  (* mode, temperature, target *)
  rewrite (S1 14%nat 138%nat 139%nat) by (cbn [offset segs breeze_segs nth length le16]; rewrite ?L1, ?Lid, ?L2, ?L3, ?Lname, ?L4, ?Lip, ?Lmac, ?L5; lia).
  cbn [nth segs breeze_segs]. rewrite Hmv, (lookup3_member _ _ _ _ modes_ok Hmode).
  rewrite (S1 12%nat 135%nat 137%nat) by (cbn [offset segs breeze_segs nth length le16]; rewrite ?L1, ?Lid, ?L2, ?L3, ?Lname, ?L4, ?Lip, ?Lmac, ?L5; lia).
  cbn [nth segs breeze_segs].
  change (swap2 (hexlify (le16 temp10))) with (hexlify [temp10 / 256 mod 256; temp10 mod 256]).
  rewrite int16_hexlify by (try discriminate; repeat constructor; apply N.mod_lt; discriminate).
  rewrite of_be_16 by exact Ht.
  rewrite (S1 15%nat 139%nat 140%nat) by (cbn [offset segs breeze_segs nth length le16]; rewrite ?L1, ?Lid, ?L2, ?L3, ?Lname, ?L4, ?Lip, ?Lmac, ?L5; lia).
  cbn [nth segs breeze_segs].
  rewrite int16_hexlify by (try discriminate; repeat constructor; exact Htg).
  replace (of_be [target]) with target by (unfold of_be; cbn [fold_left]; lia).
  (* fan and swing nibbles *)
  rewrite (S1 16%nat 140%nat 141%nat) by (cbn [offset segs breeze_segs nth length le16]; rewrite ?L1, ?Lid, ?L2, ?L3, ?Lname, ?L4, ?Lip, ?Lmac, ?L5; lia).
  cbn [nth segs breeze_segs].
  assert (Hnib : hexlify [16 * fan + (if swing then 1 else 0)] = [hexdigit fan; hexdigit (if swing then 1 else 0)]).
  { set (sw := if swing then 1 else 0). assert (Hsw : sw < 2) by (unfold sw; destruct swing; lia).
    cbn [hexlify flat_map hexbyte app].
    replace ((16 * fan + sw) / 16) with fan by lia. replace ((16 * fan + sw) mod 16) with sw by lia. reflexivity. }
  rewrite Hnib. change (pyslice 0 1 [hexdigit fan; hexdigit (if swing then 1 else 0)]) with [hexdigit fan].
  rewrite Hfv, (lookup3_member _ _ _ _ fans_ok Hfn).
  change (pyslice 1 2 [hexdigit fan; hexdigit (if swing then 1 else 0)]) with [hexdigit (if swing then 1 else 0)].
  (* remote id *)
  rewrite (S1 18%nat 143%nat 151%nat) by (cbn [offset segs breeze_segs nth length le16]; rewrite ?L1, ?Lid, ?L2, ?L3, ?Lname, ?L4, ?Lip, ?Lmac, ?L5, ?L6, ?Lrem; lia).
  cbn [nth segs breeze_segs]. rewrite Lrv.
  (* id, key, ip, mac *)
  rewrite (H1 2%nat 18%nat 21%nat 36%nat 42%nat) by (cbn [offset segs breeze_segs nth length]; rewrite ?L1, ?Lid; lia).
  rewrite (H1 4%nat 40%nat 41%nat 80%nat 82%nat) by (cbn [offset segs breeze_segs nth length]; rewrite ?L1, ?Lid, ?L2; lia).
  rewrite (S1 9%nat 77%nat 81%nat) by (cbn [offset segs breeze_segs nth length]; rewrite ?L1, ?Lid, ?L2, ?L3, ?Lname, ?L4, ?Lip; lia).
  rewrite (S1 10%nat 81%nat 87%nat) by (cbn [offset segs breeze_segs nth length]; rewrite ?L1, ?Lid, ?L2, ?L3, ?Lname, ?L4, ?Lip, ?Lmac; lia).
  cbn [nth segs breeze_segs].
  destruct on, swing; reflexivity.
Qed.
Print Assumptions breeze_roundtrip.
