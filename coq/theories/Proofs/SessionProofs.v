Require Import AS.Base.Prelude AS.Base.Exchange AS.Model.Api AS.Model.Ops AS.Model.Session AS.Spec.Session
  AS.Proofs.FrameAll AS.Proofs.Uniform.
Open Scope N_scope.

Lemma run_of_uniform {A} (m : M A) R fs r :
  (forall F, m (mk F R) = (mk (F ++ fs) (skipn (length fs) R), r)) -> Exchange.run m R = (fs, r).
Proof. intros H. unfold Exchange.run. fold (mk [] R). rewrite H. reflexivity. Qed.

Lemma seq_ops_alone c ops : forall F R,
  seq_ops c ops (mk F R) =
  (mk (F ++ concat (map fst (alone c ops R))) (skipn (length (concat (map fst (alone c ops R)))) R),
   map snd (alone c ops R)).
Proof.
  induction ops as [|[now o] rest IH]; intros F R.
  - cbn. unfold mk. rewrite app_nil_r. reflexivity.
  - cbn [seq_ops alone map concat fst snd].
    destruct (uniform_run_op c now o R) as [fs [r H]].
    rewrite (run_of_uniform _ _ _ _ H). cbn [fst snd]. rewrite H, IH.
    rewrite app_assoc, app_length, skipn_skipn'. reflexivity.
Qed.

(* one connection, any sequence of operations, any device script *)
Theorem sequence_is_operations_alone c ops script :
  run_seq c ops script = (concat (map fst (alone c ops script)), map snd (alone c ops script)).
Proof. unfold run_seq. fold (mk [] script). rewrite seq_ops_alone. reflexivity. Qed.

(* several objects: object k's connection and results are those of its own operations run in order on its own connection *)
Lemma wupd_same w k st : wupd w k st k = st.
Proof. unfold wupd. rewrite Nat.eqb_refl. reflexivity. Qed.
Lemma wupd_other w k j st : j <> k -> wupd w k st j = w j.
Proof. intros H. unfold wupd. destruct (Nat.eqb_spec j k); [contradiction|reflexivity]. Qed.

Theorem objects_do_not_interfere cfgs sched : forall w k,
  fst (run_world cfgs sched w) k = fst (seq_ops (cfgs k) (mine k sched) (w k)) /\
  results_of k (snd (run_world cfgs sched w)) = snd (seq_ops (cfgs k) (mine k sched) (w k)).
Proof.
  induction sched as [|[j [now o]] rest IH]; intros w k; [split; reflexivity|].
  cbn [run_world]. destruct (run_op (cfgs j) now o (w j)) as [st r] eqn:E.
  specialize (IH (wupd w j st) k). destruct (run_world cfgs rest (wupd w j st)) as [w' rs] eqn:Er.
  cbn [fst snd] in *. unfold mine, results_of in *. cbn [filter fst].
  destruct (Nat.eqb_spec j k) as [->|Hne].
  - cbn [map snd seq_ops]. rewrite E. rewrite wupd_same in IH.
    destruct (seq_ops (cfgs k) _ st) as [st2 rs2]. cbn [fst snd] in *. destruct IH as [A B]. split; [exact A|rewrite B; reflexivity].
  - rewrite wupd_other in IH by congruence. exact IH.
Qed.
