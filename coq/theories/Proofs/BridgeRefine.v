(* C17 as a refinement: the lifecycle model of one bridge object against the history reading of Spec/BridgeHistory.v *)
Require Import AS.Base.Prelude AS.Model.Lifecycle AS.Spec.BridgeHistory AS.Proofs.LifecycleProofs.

Lemma mem_In p l : mem p l = true <-> In p l.
Proof.
  unfold mem. rewrite existsb_exists. split.
  - intros [x [Hx E]]. apply Nat.eqb_eq in E. subst. exact Hx.
  - intros H. exists p. split; [exact H|apply Nat.eqb_refl].
Qed.
Lemma mem_false p l : mem p l = false <-> ~ In p l.
Proof. rewrite <- mem_In. destruct (mem p l); split; congruence. Qed.
Lemma mem_cons q x l : mem q (x :: l) = (Nat.eqb q x || mem q l)%bool.
Proof. reflexivity. Qed.

(* closing what this call opened gives those ports back and touches nothing else *)
Lemma close_all_frees l : forall s q, NoDup l -> (forall x, In x l -> trans s x = TOpen) ->
  os (fold_left close_port l s) q = if mem q l then Free else os s q.
Proof.
  induction l as [|x l IH]; intros s q Hnd Hop; [reflexivity|].
  inversion Hnd as [|? ? Hnin Hnd']; subst. cbn [fold_left]. rewrite IH; [|exact Hnd'|].
  - rewrite mem_cons. destruct (Nat.eqb_spec q x) as [->|Hne]; cbn [orb].
    + apply mem_false in Hnin. rewrite Hnin. unfold close_port. rewrite (Hop x (or_introl eq_refl)). cbn [os]. apply upd_same.
    + destruct (mem q l); [reflexivity|]. apply close_port_keeps, Hne.
  - intros y Hy. assert (Hne : y <> x) by (intros ->; contradiction).
    unfold close_port. destruct (trans s x) eqn:E; try (apply Hop; right; exact Hy).
    cbn [trans]. rewrite upd_other by exact Hne. apply Hop. right. exact Hy.
Qed.

Definition all_free (s : bstate) (ports : list nat) : bool :=
  forallb (fun p => match os s p with Free => true | _ => false end) ports.

(* every configured port free: start binds them all *)
Lemma start_loop_all_free ports : forall opened s, NoDup ports -> coherent s -> all_free s ports = true ->
  exists s', start_loop false ports opened s = (s', true) /\ running s' = true /\ coherent s' /\
             forall q, os s' q = if mem q ports then Bridge else os s q.
Proof.
  induction ports as [|p rest IH]; intros opened s Hnd Hc Hf.
  - eexists. split; [reflexivity|]. cbn [running os]. split; [reflexivity|]. split; [exact Hc|reflexivity].
  - inversion Hnd as [|? ? Hnin Hnd']; subst. cbn [all_free forallb] in Hf. apply andb_prop in Hf. destruct Hf as [Hp Hrest].
    destruct (os s p) eqn:E; try discriminate. cbn [start_loop]. rewrite E.
    set (s1 := {| running := running s; os := upd (os s) p Bridge; trans := upd (trans s) p TOpen |}).
    assert (Hc1 : coherent s1).
    { intros q. cbn. destruct (Nat.eq_dec q p) as [->|Hne]; [rewrite !upd_same; split; reflexivity|rewrite !upd_other by exact Hne; apply Hc]. }
    assert (Hf1 : all_free s1 rest = true).
    { unfold all_free in *. rewrite forallb_forall in *. intros x Hx. cbn [s1 os].
      rewrite upd_other by (intros ->; contradiction). apply Hrest, Hx. }
    destruct (IH (p :: opened) s1 Hnd' Hc1 Hf1) as [s' [Hs [Hr [Hc' Hos]]]].
    exists s'. split; [exact Hs|]. split; [exact Hr|]. split; [exact Hc'|].
    intros q. rewrite Hos, mem_cons. destruct (Nat.eqb_spec q p) as [->|Hne]; cbn [orb].
    + apply mem_false in Hnin. rewrite Hnin. cbn [s1 os]. apply upd_same.
    + destruct (mem q rest); [reflexivity|]. cbn [s1 os]. apply upd_other, Hne.
Qed.

(* some configured port taken: start raises, and what it had opened is given back *)
Lemma start_loop_blocked ports : forall opened s, coherent s -> all_free s ports = false ->
  NoDup opened -> (forall x, In x opened -> trans s x = TOpen) ->
  exists s', start_loop false ports opened s = (s', false) /\ running s' = running s /\ coherent s' /\
             forall q, os s' q = if mem q opened then Free else os s q.
Proof.
  induction ports as [|p rest IH]; intros opened s Hc Hf Hnd Hop; [discriminate|].
  cbn [all_free forallb] in Hf. cbn [start_loop]. destruct (os s p) eqn:E.
  - cbn [andb] in Hf.
    set (s1 := {| running := running s; os := upd (os s) p Bridge; trans := upd (trans s) p TOpen |}).
    assert (Hc1 : coherent s1).
    { intros q. cbn. destruct (Nat.eq_dec q p) as [->|Hne]; [rewrite !upd_same; split; reflexivity|rewrite !upd_other by exact Hne; apply Hc]. }
    assert (Hpn : ~ In p opened).
    { intros Hin. apply Hop in Hin. apply Hc in Hin. congruence. }
    assert (Hf1 : all_free s1 rest = false).
    { unfold all_free in *. destruct (forallb _ rest) eqn:F1 in |- *; [|reflexivity]. rewrite <- Hf. symmetry.
      rewrite forallb_forall in F1. apply forallb_forall. intros x Hx. specialize (F1 x Hx). cbn [s1 os] in F1.
      destruct (Nat.eq_dec x p) as [->|Hne]; [rewrite E; reflexivity|]. rewrite upd_other in F1 by exact Hne. exact F1. }
    destruct (IH (p :: opened) s1 Hc1 Hf1) as [s' [Hs [Hr [Hc' Hos]]]].
    + constructor; assumption.
    + intros x [<-|Hx]; cbn [s1 trans]; [apply upd_same|]. rewrite upd_other by (intros ->; contradiction). apply Hop, Hx.
    + exists s'. split; [exact Hs|]. split; [exact Hr|]. split; [exact Hc'|].
      intros q. rewrite Hos, mem_cons. destruct (Nat.eqb_spec q p) as [->|Hne]; cbn [orb].
      * apply mem_false in Hpn. rewrite Hpn. symmetry. exact E.
      * destruct (mem q opened); [reflexivity|]. cbn [s1 os]. apply upd_other, Hne.
  - eexists. split; [reflexivity|]. split; [apply close_all_running|]. split; [apply close_all_coherent, Hc|].
    intros q. apply close_all_frees; assumption.
  - eexists. split; [reflexivity|]. split; [apply close_all_running|]. split; [apply close_all_coherent, Hc|].
    intros q. apply close_all_frees; assumption.
Qed.

Lemma close_all_noop l : forall s, (forall x, In x l -> trans s x <> TOpen) -> fold_left close_port l s = s.
Proof.
  induction l as [|x l IH]; intros s H; [reflexivity|]. cbn [fold_left].
  assert (E : close_port s x = s). { unfold close_port. destruct (trans s x) eqn:T; try reflexivity. exfalso. apply (H x (or_introl eq_refl) T). }
  rewrite E. apply IH. intros y Hy. apply H. right. exact Hy.
Qed.

(* the abstraction: the model's flag and OS table are what the history says; a running bridge's ports are not foreign *)
Definition R (ports : list nat) (s : bstate) (a : astate) : Prop :=
  coherent s /\ running s = a_run a /\ (forall q, os s q = a_owner ports a q) /\
  (a_run a = true -> forall q, In q ports -> a_foreign a q = false).

Lemma all_free_R ports s a : ports <> [] -> R ports s a ->
  all_free s ports = negb (a_run a || existsb (a_foreign a) ports).
Proof.
  intros Hne (_ & _ & Hos & _). unfold all_free. destruct (a_run a) eqn:Ra; cbn [orb negb].
  - destruct ports as [|p rest]; [contradiction|]. cbn [forallb]. rewrite Hos. unfold a_owner. rewrite Ra, mem_cons, Nat.eqb_refl. reflexivity.
  - assert (H : forall l, forallb (fun p => match os s p with Free => true | _ => false end) l = negb (existsb (a_foreign a) l)).
    { induction l as [|x l IH]; [reflexivity|]. cbn [forallb existsb]. rewrite IH, Hos. unfold a_owner. rewrite Ra. cbn [andb].
      destruct (a_foreign a x); reflexivity. }
    apply H.
Qed.

Lemma step_refines ports s a act : NoDup ports -> ports <> [] -> R ports s a ->
  snd (step false ports s act) = snd (a_step ports a act) /\ R ports (fst (step false ports s act)) (fst (a_step ports a act)).
Proof.
  intros Hnd Hne HR. pose proof HR as (Hc & Hr & Hos & Hfor). destruct act as [| |p|p|p]; cbn [step a_step].
  - (* start *)
    pose proof (all_free_R ports s a Hne HR) as Haf. unfold start.
    destruct (a_run a || existsb (a_foreign a) ports)%bool eqn:Cond; cbn [negb] in Haf.
    + destruct (start_loop_blocked ports [] s Hc Haf (NoDup_nil _) ltac:(intros x [])) as [s' [Hs [Hr' [Hc' Hos']]]].
      rewrite Hs. cbn [fst snd]. split; [reflexivity|]. split; [exact Hc'|]. split; [congruence|]. split; [|exact Hfor].
      intros q. rewrite Hos'. cbn. apply Hos.
    + destruct (start_loop_all_free ports [] s Hnd Hc Haf) as [s' [Hs [Hr' [Hc' Hos']]]].
      rewrite Hs. cbn [fst snd]. split; [reflexivity|]. apply orb_false_elim in Cond. destruct Cond as [Ra Hex].
      split; [exact Hc'|]. split; [exact Hr'|]. split.
      * intros q. rewrite Hos', Hos. unfold a_owner. cbn [a_run a_foreign]. rewrite Ra. cbn [andb]. reflexivity.
      * intros _ q Hq. cbn [a_foreign]. destruct (a_foreign a q) eqn:F; [|reflexivity].
        assert (existsb (a_foreign a) ports = true) by (apply existsb_exists; exists q; split; assumption). congruence.
  - (* stop *)
    cbn [fst snd]. split; [reflexivity|]. unfold stop. split; [|split; [reflexivity|split; [|discriminate]]].
    + intros q. cbn [os trans]. apply (close_all_coherent ports s Hc).
    + intros q. cbn [os]. unfold a_owner. cbn [a_run a_foreign andb]. destruct (a_run a) eqn:Ra.
      * rewrite close_all_frees; [|exact Hnd|].
        -- destruct (mem q ports) eqn:M.
           ++ apply mem_In in M. rewrite (Hfor eq_refl q M). reflexivity.
           ++ rewrite Hos. unfold a_owner. rewrite Ra, M. reflexivity.
        -- intros x Hx. apply Hc. rewrite Hos. unfold a_owner. rewrite Ra. apply mem_In in Hx. rewrite Hx. reflexivity.
      * rewrite close_all_noop; [rewrite Hos; unfold a_owner; rewrite Ra; reflexivity|].
        intros x _ T. apply Hc in T. rewrite Hos in T. unfold a_owner in T. rewrite Ra in T. cbn [andb] in T. destruct (a_foreign a x); discriminate.
  - (* occupy *)
    destruct (a_run a && mem p ports)%bool eqn:B; cbn [orb].
    + assert (E : os s p = Bridge) by (rewrite Hos; unfold a_owner; rewrite B; reflexivity). rewrite E.
      cbn [fst snd]. split; [reflexivity|exact HR].
    + destruct (a_foreign a p) eqn:F.
      * assert (E : os s p = Foreign) by (rewrite Hos; unfold a_owner; rewrite B, F; reflexivity). rewrite E.
        cbn [fst snd]. split; [reflexivity|exact HR].
      * assert (Hfree : os s p = Free) by (rewrite Hos; unfold a_owner; rewrite B, F; reflexivity). rewrite Hfree.
        cbn [fst snd]. split; [reflexivity|].
        split; [|split; [exact Hr|split]].
        -- intros q. cbn [os trans]. destruct (Nat.eq_dec q p) as [->|Hn].
           ++ rewrite upd_same. split; [discriminate|]. intros T. apply Hc in T. congruence.
           ++ rewrite upd_other by exact Hn. apply Hc.
        -- intros q. cbn [os]. unfold a_owner. cbn [a_run a_foreign]. unfold a_set. destruct (Nat.eq_dec q p) as [->|Hn].
           ++ rewrite upd_same, B, Nat.eqb_refl. reflexivity.
           ++ rewrite upd_other by exact Hn. destruct (Nat.eqb_spec q p); [contradiction|]. apply Hos.
        -- cbn [a_run a_foreign]. intros Ra q Hq. unfold a_set. destruct (Nat.eqb_spec q p) as [->|Hn]; [|apply Hfor; assumption].
           apply mem_In in Hq. rewrite Ra, Hq in B. discriminate.
  - (* release *)
    cbn [fst snd]. destruct (os s p) eqn:E; cbn [fst snd]; (split; [reflexivity|]).
    + split; [exact Hc|]. split; [exact Hr|]. split.
      * intros q. unfold a_owner. cbn [a_run a_foreign]. unfold a_set. destruct (Nat.eqb_spec q p) as [->|Hn]; [|apply Hos].
        rewrite E. rewrite Hos in E. unfold a_owner in E. destruct (a_run a && mem p ports)%bool; [discriminate|]. reflexivity.
      * cbn [a_run a_foreign]. intros Ra q Hq. unfold a_set. destruct (Nat.eqb q p); [reflexivity|apply Hfor; assumption].
    + split; [|split; [exact Hr|split]].
      * intros q. cbn [os trans]. destruct (Nat.eq_dec q p) as [->|Hn].
        -- rewrite upd_same. split; [discriminate|]. intros T. apply Hc in T. congruence.
        -- rewrite upd_other by exact Hn. apply Hc.
      * intros q. cbn [os]. unfold a_owner. cbn [a_run a_foreign]. unfold a_set. destruct (Nat.eq_dec q p) as [->|Hn].
        -- rewrite upd_same, Nat.eqb_refl. rewrite Hos in E. unfold a_owner in E. destruct (a_run a && mem p ports)%bool; [discriminate|reflexivity].
        -- rewrite upd_other by exact Hn. destruct (Nat.eqb_spec q p); [contradiction|]. apply Hos.
      * cbn [a_run a_foreign]. intros Ra q Hq. unfold a_set. destruct (Nat.eqb q p); [reflexivity|apply Hfor; assumption].
    + split; [exact Hc|]. split; [exact Hr|]. split.
      * intros q. unfold a_owner. cbn [a_run a_foreign]. unfold a_set. destruct (Nat.eqb_spec q p) as [->|Hn]; [|apply Hos].
        rewrite E. rewrite Hos in E. unfold a_owner in E. destruct (a_run a && mem p ports)%bool; [reflexivity|]. destruct (a_foreign a p); discriminate.
      * cbn [a_run a_foreign]. intros Ra q Hq. unfold a_set. destruct (Nat.eqb q p); [reflexivity|apply Hfor; assumption].
  - (* send *)
    cbn [fst snd]. split; [|exact HR]. rewrite Hos. unfold a_owner. destruct (a_run a && mem p ports)%bool; [reflexivity|].
    destruct (a_foreign a p); reflexivity.
Qed.

(* the model's trace of observations *)
Fixpoint c_trace (ports : list nat) (s : bstate) (acts : list action) : bstate * list obs :=
  match acts with
  | [] => (s, [])
  | a :: rest => let '(s1, o) := step false ports s a in let '(s2, os) := c_trace ports s1 rest in (s2, o :: os)
  end.

Lemma c_trace_run ports acts : forall s, fst (c_trace ports s acts) = fold_left (fun s a => fst (step false ports s a)) acts s.
Proof.
  induction acts as [|a rest IH]; intros s; [reflexivity|]. cbn [c_trace fold_left].
  destruct (step false ports s a) as [s1 o]. specialize (IH s1). destruct (c_trace ports s1 rest). cbn [fst] in *. exact IH.
Qed.

Lemma trace_refines ports : NoDup ports -> ports <> [] -> forall acts s a, R ports s a ->
  snd (c_trace ports s acts) = snd (a_trace ports a acts) /\ R ports (fst (c_trace ports s acts)) (fst (a_trace ports a acts)).
Proof.
  intros Hnd Hne. induction acts as [|act rest IH]; intros s a HR; [split; [reflexivity|exact HR]|].
  cbn [c_trace a_trace]. destruct (step_refines ports s a act Hnd Hne HR) as [Ho HR1].
  destruct (step false ports s act) as [s1 o]. destruct (a_step ports a act) as [a1 o']. cbn [fst snd] in *.
  specialize (IH s1 a1 HR1). destruct (c_trace ports s1 rest) as [s2 os2]. destruct (a_trace ports a1 rest) as [a2 os2']. cbn [fst snd] in *.
  destruct IH as [E HR2]. split; [congruence|exact HR2].
Qed.

Lemma R_init ports : R ports init a_init.
Proof.
  split; [|split; [reflexivity|split; [|discriminate]]].
  - intros q. cbn. split; discriminate.
  - intros q. reflexivity.
Qed.

Theorem bridge_refines_history ports acts : NoDup ports -> ports <> [] ->
  let s := run false ports acts in let a := fst (a_trace ports a_init acts) in
  snd (c_trace ports init acts) = snd (a_trace ports a_init acts) /\
  running s = a_run a /\ forall q, os s q = a_owner ports a q.
Proof.
  intros Hnd Hne s a. destruct (trace_refines ports Hnd Hne acts init a_init (R_init ports)) as [E (Hc & Hr & Hos & _)].
  unfold s, run. rewrite <- c_trace_run. split; [exact E|]. split; [exact Hr|exact Hos].
Qed.
