(* C05 — A status broadcast is decoded into exactly the device the sender described *)
Require Import AS.Base.Prelude AS.Base.Hex AS.Base.Dec AS.Base.Utf8 AS.Base.Float AS.Gen.Extracted AS.Model.Messages AS.Model.Bridge AS.Spec.Encoders AS.Proofs.BridgeProofs AS.Proofs.BroadcastProofs AS.Proofs.FloatProofs.

(* partial (thermostat family): parse o encode = identity for every field value and every filler byte *)
Local Open Scope N_scope.
Theorem C05_breeze_roundtrip_partial (f1 id f2 : bytes) (key : N) (f3 name f4 ip mac f5 : bytes) (temp10 : N) (on : bool)
    (mode_name mode_value mode_disp : string) (mode_byte target : N) (fan_name fan_value fan_disp : string)
    (fan : N) (swing : bool) (f6 remote f7 : bytes) :
  breeze_wf f1 id f2 f3 f4 ip mac f5 f6 remote f7 name ->
  wf_bytes (concat (breeze_segs f1 id f2 key f3 (name ++ repeat 0 (32 - length name)) f4 ip mac f5 temp10
                      (if on then 1 else 0) mode_byte target (16 * fan + (if swing then 1 else 0)) f6 remote f7)) ->
  temp10 < 65536 -> target < 256 -> fan < 16 ->
  In (mode_name, mode_value, mode_disp) thermostat_modes -> hexlify [mode_byte] = s2l mode_value -> mode_byte < 256 ->
  In (fan_name, fan_value, fan_disp) fan_levels -> [hexdigit fan] = s2l fan_value ->
  parse_datagram false false
    (concat (breeze_segs f1 id f2 key f3 (name ++ repeat 0 (32 - length name)) f4 ip mac f5 temp10
               (if on then 1 else 0) mode_byte target (16 * fan + (if swing then 1 else 0)) f6 remote f7)) =
  Delivered (DThermostat "BREEZE" on (hexlify id) (hexlify [key]) (dotted ip) (mac_of mac) name mode_name
               temp10 target fan_name swing remote).
Proof. exact (breeze_roundtrip f1 id f2 key f3 name f4 ip mac f5 temp10 on mode_name mode_value mode_disp mode_byte target fan_name fan_value fan_disp fan swing f6 remote f7). Qed.
Print Assumptions C05_breeze_roundtrip_partial.
Local Close Scope N_scope.

(* amps = watts / 220 to one decimal, for every 16-bit wattage (bit-exact float model) *)
Local Open Scope Z_scope.
Theorem C05_amps w : (w < 65536)%N -> Z.abs (Z.of_N w - 22 * amps_tenths (Z.of_N w)) <= 11.
Proof. exact (amps_ok w). Qed.
Print Assumptions C05_amps.
Local Close Scope Z_scope.

