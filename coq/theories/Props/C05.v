(* C05 — A status broadcast is decoded into exactly the device the sender described *)
Require Import AS.Base.Prelude AS.Base.Hex AS.Base.Dec AS.Base.Utf8 AS.Base.Float AS.Gen.Extracted AS.Model.Messages AS.Model.Bridge AS.Spec.Encoders AS.Proofs.BridgeProofs AS.Proofs.BroadcastProofs AS.Proofs.BroadcastProofs2 AS.Proofs.FloatProofs.

(* thermostat family (168 bytes): parse o encode = identity for every field value and every filler byte *)
Local Open Scope N_scope.
Theorem C05_thermostat_broadcast (f1 id f2 : bytes) (key : N) (f3 name f4 ip mac f5 : bytes) (temp10 : N) (on : bool)
    (mode_name mode_value mode_disp : string) (mode_byte target : N) (fan_name fan_value fan_disp : string)
    (fan : N) (swing : bool) (f6 remote f7 : bytes) :
  breeze_wf f1 id f2 f3 f4 ip mac f5 f6 remote f7 name ->
  wf_bytes (concat (breeze_segs f1 id f2 key f3 (name ++ repeat 0 (32 - length name)) f4 ip mac f5 temp10
                      (if on then 1 else 0) mode_byte target (16 * fan + (if swing then 1 else 0)) f6 remote f7)) ->
  temp10 < 65536 -> target < 256 -> fan < 16 ->
  In (mode_name, mode_value, mode_disp) thermostat_modes -> hexlify [mode_byte] = s2l mode_value -> mode_byte < 256 ->
  In (fan_name, fan_value, fan_disp) fan_levels -> [hexdigit fan] = s2l fan_value ->
  parse_datagram false false
    (concat (breeze_segs f1 id f2 key f3 (name ++ repeat 0 (32 - length name)) f4 ip mac f5 temp10
               (if on then 1 else 0) mode_byte target (16 * fan + (if swing then 1 else 0)) f6 remote f7)) =
  Delivered (DThermostat "BREEZE" on (hexlify id) (hexlify [key]) (dotted ip) (mac_of mac) name mode_name
               temp10 target fan_name swing remote).
Proof. exact (breeze_roundtrip f1 id f2 key f3 name f4 ip mac f5 temp10 on mode_name mode_value mode_disp mode_byte target fan_name fan_value fan_disp fan swing f6 remote f7). Qed.
Print Assumptions C05_thermostat_broadcast.
Local Close Scope N_scope.

(* amps = watts / 220 to one decimal, for every 16-bit wattage (bit-exact float model) *)
Local Open Scope Z_scope.
Theorem C05_amps w : (w < 65536)%N -> Z.abs (Z.of_N w - 22 * amps_tenths (Z.of_N w)) <= 11.
Proof. exact (amps_ok w). Qed.
Print Assumptions C05_amps.
Local Close Scope Z_scope.


(* water heaters (5 types) and the power plug (165 bytes): every field, OFF normalisation included *)
Local Open Scope N_scope.
Theorem C05_type1_broadcast : forall (f1 id f2 : bytes) (key : N) (f3 name ip mac f5 : bytes) (on : bool) (f6 : bytes) (power : N)
    (f7a f7b : bytes) (remaining : N) (f8 : bytes) (auto : N) (f9 : bytes) (tname tvalue thex : string) (proto : N) (cat : string),
  In (tname, tvalue, thex, proto, cat) device_types ->
  length f1 = 16%nat -> length id = 3%nat -> length f2 = 19%nat -> length f3 = 1%nat -> length ip = 4%nat -> length mac = 6%nat ->
  length f5 = 47%nat -> length f6 = 1%nat -> length f7a = 2%nat -> length f7b = 8%nat -> length f8 = 4%nat -> length f9 = 6%nat ->
  (length name <= 32)%nat -> utf8_valid name = true -> last name 1 <> 0 ->
  power < 65536 -> remaining < 86400 -> auto < 86400 ->
  wf_bytes (concat (type1_segs f1 id f2 key f3 (pad0 32 name) (unhex_str thex) ip mac f5 (if on then 1 else 0) f6 power
                      (f7a ++ f7b) remaining f8 auto f9)) ->
  cat = "WATER_HEATER"%string \/ cat = "POWER_PLUG"%string ->
  parse_datagram false false
    (concat (type1_segs f1 id f2 key f3 (pad0 32 name) (unhex_str thex) ip mac f5 (if on then 1 else 0) f6 power
               (f7a ++ f7b) remaining f8 auto f9)) =
  Delivered
    (if String.eqb cat "WATER_HEATER"
     then DWaterHeater tname on (hexlify id) (hexlify [key]) (dotted ip) (mac_of mac) name (if on then power else 0)
            (if on then fmt_hhmmss remaining else s2l "00:00:00") (fmt_hhmmss auto)
     else DPowerPlug tname on (hexlify id) (hexlify [key]) (dotted ip) (mac_of mac) name (if on then power else 0)).
Proof. exact type1_roundtrip. Qed.
Print Assumptions C05_type1_broadcast.

(* the same for an arbitrary state byte: the device is ON iff the byte is 01, and a device that is not ON may carry anything
   (any 32-bit number) in its countdown field: power, current and remaining time are reported as zero *)
Theorem C05_type1_any_state_byte : forall (f1 id f2 : bytes) (key : N) (f3 name ip mac f5 : bytes) (stb : N) (f6 : bytes) (power : N)
    (f7a f7b : bytes) (remaining : N) (f8 : bytes) (auto : N) (f9 : bytes) (tname tvalue thex : string) (proto : N) (cat : string),
  In (tname, tvalue, thex, proto, cat) device_types ->
  length f1 = 16%nat -> length id = 3%nat -> length f2 = 19%nat -> length f3 = 1%nat -> length ip = 4%nat -> length mac = 6%nat ->
  length f5 = 47%nat -> length f6 = 1%nat -> length f7a = 2%nat -> length f7b = 8%nat -> length f8 = 4%nat -> length f9 = 6%nat ->
  (length name <= 32)%nat -> utf8_valid name = true -> last name 1 <> 0 ->
  stb < 256 -> power < 65536 -> ((stb =? 1) = true -> remaining < 86400) -> auto < 86400 ->
  wf_bytes (concat (type1_segs f1 id f2 key f3 (pad0 32 name) (unhex_str thex) ip mac f5 stb f6 power
                      (f7a ++ f7b) remaining f8 auto f9)) ->
  cat = "WATER_HEATER"%string \/ cat = "POWER_PLUG"%string ->
  let on := stb =? 1 in
  parse_datagram false false
    (concat (type1_segs f1 id f2 key f3 (pad0 32 name) (unhex_str thex) ip mac f5 stb f6 power
               (f7a ++ f7b) remaining f8 auto f9)) =
  Delivered
    (if String.eqb cat "WATER_HEATER"
     then DWaterHeater tname on (hexlify id) (hexlify [key]) (dotted ip) (mac_of mac) name (if on then power else 0)
            (if on then fmt_hhmmss remaining else s2l "00:00:00") (fmt_hhmmss auto)
     else DPowerPlug tname on (hexlify id) (hexlify [key]) (dotted ip) (mac_of mac) name (if on then power else 0)).
Proof. exact type1_roundtrip_any. Qed.
Print Assumptions C05_type1_any_state_byte.

(* Runner and Runner Mini (159 bytes): MAC at bytes 81-86, position at 135 with byte 136 zero, direction at 137-138 *)
Theorem C05_runner_broadcast : forall (f1 id f2 : bytes) (key : N) (f3 name f4 ip mac f5 : bytes) (position : N) (f6 : bytes)
    (tname tvalue thex : string) (proto : N) (dname dvalue ddisp : string),
  In (tname, tvalue, thex, proto, "SHUTTER"%string) device_types -> In (dname, dvalue, ddisp) shutter_directions ->
  length f1 = 16%nat -> length id = 3%nat -> length f2 = 19%nat -> length f3 = 1%nat -> length f4 = 1%nat ->
  length ip = 4%nat -> length mac = 6%nat -> length f5 = 48%nat -> length f6 = 20%nat ->
  (length name <= 32)%nat -> utf8_valid name = true -> last name 1 <> 0 -> position < 256 ->
  wf_bytes (concat (runner_segs f1 id f2 key f3 (pad0 32 name) (unhex_str thex) f4 ip mac f5 position (unhex_str dvalue) f6)) ->
  parse_datagram false false
    (concat (runner_segs f1 id f2 key f3 (pad0 32 name) (unhex_str thex) f4 ip mac f5 position (unhex_str dvalue) f6)) =
  Delivered (DShutter tname (hexlify id) (hexlify [key]) (dotted ip) (mac_of mac) name position dname).
Proof. exact runner_roundtrip. Qed.
Print Assumptions C05_runner_broadcast.
