(* C19 — Device types, categories, classes and ports are mutually consistent *)
Require Import AS.Base.Prelude AS.Gen.Extracted AS.Spec.Tables.
Theorem C19_types : types_ok = true.   Proof. vm_compute. reflexivity. Qed.
Print Assumptions C19_types.
Theorem C19_ports : ports_ok = true.   Proof. vm_compute. reflexivity. Qed.
Print Assumptions C19_ports.
Theorem C19_classes : classes_ok = true. Proof. vm_compute. reflexivity. Qed.
Print Assumptions C19_classes.
