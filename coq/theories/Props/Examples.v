(* Non-vacuity: the property theorems instantiated at concrete devices, requests and replies, their premises discharged
   by computation.  Nothing here is a new claim; every Example applies a theorem of Props/Cxx.v. *)
Require Import AS.Base.Prelude AS.Base.Hex AS.Base.Dec AS.Base.Template AS.Base.Exchange AS.Base.Utf8 AS.Gen.Extracted
  AS.Spec.Sign AS.Spec.Frame AS.Spec.FrameLayout AS.Spec.Encoders AS.Spec.FrameSpec AS.Spec.IrChoice AS.Spec.Remote
  AS.Model.DeviceTools AS.Model.Messages AS.Model.Remotes AS.Model.ScheduleTools AS.Model.Api
  AS.Proofs.SpecOps AS.Proofs.CreateExact AS.Proofs.RemoteSpec AS.Proofs.BreezeExact AS.Proofs.BreezeReplies.
Require AS.Props.C02 AS.Props.C16.
Open Scope N_scope.

Definition idb : bytes := [171; 28; 45].
Definition keyb : N := 24.
Definition now : N := 1700000000.
Definition r0 : bytes := repeat 7 8 ++ [161; 178; 195; 212] ++ repeat 0 8.          (* a login reply carrying session a1 b2 c3 d4 *)
Definition h := hdr_args (pyslice 8 12 r0) now idb.

Lemma idb_ok : length idb = 3%nat /\ Forall (fun b => b < 256) idb. Proof. split; [reflexivity|repeat constructor]. Qed.
Lemma r0_ok : Forall (fun b => b < 256) r0 /\ (12 <= length r0)%nat.
Proof. split; [apply Forall_forall; intros x Hx; vm_compute in Hx; repeat (destruct Hx as [<-|Hx]; [reflexivity|]); destruct Hx|vm_compute; lia]. Qed.

(* C02: switch on for 90 minutes *)
Example C02_control_example :
  outcome_is idb keyb now [[1]] (Exchange.run (control_device_op false (cfg_of idb keyb) now (s2l "1") 90) (r0 :: [[1]])) (spec_control h true 90)
  /\ match spec_control h true 90 with Frame b => length b = 93%nat | _ => False end.
Proof.
  split; [|vm_compute; reflexivity].
  exact (C02.C02_control_device idb keyb now r0 [[1]] (proj1 idb_ok) (proj2 idb_ok) ltac:(reflexivity) ltac:(reflexivity) (proj1 r0_ok) (proj2 r0_ok) true 90%Z).
Qed.

(* C02: a schedule 7:05 - 23:59 on Monday and Sunday, and one with a repeated day *)
Example C02_create_example :
  outcome_is idb keyb now [[1]] (Exchange.run (create_schedule_op false (cfg_of idb keyb) now 1699920000 (s2l "7:05") (s2l "23:59") (ASeq [0; 6]%nat)) (r0 :: [[1]]))
             (spec_create h 1699920000 (s2l "7:05") (s2l "23:59") [0; 6]%nat)
  /\ match spec_create h 1699920000 (s2l "7:05") (s2l "23:59") [0; 6]%nat with Frame b => length b = 99%nat | _ => False end
  /\ spec_create h 1699920000 (s2l "7:05") (s2l "23:59") [0; 6; 0]%nat = MustRaise.
Proof.
  split; [|split; vm_compute; reflexivity].
  apply (C02.C02_create_schedule idb keyb now r0 [[1]] (proj1 idb_ok) (proj2 idb_ok) ltac:(reflexivity) ltac:(reflexivity) (proj1 r0_ok) (proj2 r0_ok)).
  - left. reflexivity.
  - intros x [<-|[<-|[]]]; vm_compute; lia.
Qed.

(* C16: a thermostat that reports OFF / COOL / 24 degrees / fan MEDIUM / swing on is switched on, nothing else given *)
Definition sr : bytes := encode_thermostat_reply (repeat 0 76) [0; 0] (repeat 0 20) 250 0 4 24 33 (s2l "ELEC7001").
Definition cur : thermostat_fields :=
  {| tf_on := false; tf_mode := "COOL"; tf_fan := "MEDIUM"; tf_temp10 := 250; tf_target := 24; tf_swing_on := true; tf_remote := s2l "ELEC7001" |}.
Lemma sr_parses : parse_thermostat_reply sr = Ok cur. Proof. vm_compute. reflexivity. Qed.
Definition set1 : irset := {| ir_id := s2l "ELEC7001"; ir_onoff := 0;
                              ir_waves := [{| w_key := s2l "ar24_f2_d1"; w_para := s2l "P"; w_hex := s2l "C0FFEE" |};
                                           {| w_key := s2l "off"; w_para := s2l "P"; w_hex := s2l "0FF0" |}] |}.

Example C16_update_example :
  exists LF GS ST, spec_login true idb [keyb] now = Frame LF /\ frame_of L_get_state2 h = Frame GS /\
    spec_breeze_status h true 4 24 2 true = Frame ST /\
    Exchange.run (control_breeze_device false (cfg_of idb keyb) now (make_remote set1) (Some true) None 0%Z None None true) (r0 :: sr :: [1] :: [])
      = ([LF; GS; ST], Ok [1]).
Proof.
  apply (C16.C16_update_exact idb keyb now r0 sr [1] (proj1 idb_ok) (proj2 idb_ok) ltac:(reflexivity) ltac:(reflexivity) (proj1 r0_ok) (proj2 r0_ok)
           ltac:(discriminate) ltac:(discriminate) (Some true) None 0%Z None None cur sr_parses (make_remote set1) [] 4 2 "04"%string "2"%string "cool"%string "medium"%string).
  - reflexivity.
  - vm_compute. tauto.
  - reflexivity.
  - reflexivity.
  - vm_compute. tauto.
  - reflexivity.
  - reflexivity.
  - vm_compute. reflexivity.
Qed.

(* the same request as an IR command: the Spec of C15 picks the stored code ar24_f2_d1, and the frame carries it *)
Example C16_ir_example :
  exists LF GS IR, spec_login true idb [keyb] now = Frame LF /\ frame_of L_get_state2 h = Frame GS /\
    spec_breeze_command h (s2l "P|C0FFEE") = Frame IR /\
    Exchange.run (control_breeze_device false (cfg_of idb keyb) now (make_remote set1) (Some true) None 0%Z None None false) (r0 :: sr :: [1] :: [])
      = ([LF; GS; IR], Ok [1]).
Proof.
  apply (C16.C16_ir_exact idb keyb now r0 sr [1] (proj1 idb_ok) (proj2 idb_ok) ltac:(reflexivity) ltac:(reflexivity) (proj1 r0_ok) (proj2 r0_ok)
           ltac:(discriminate) ltac:(discriminate) (Some true) None 0%Z None None cur sr_parses set1 [] (s2l "P|C0FFEE")).
  - reflexivity.
  - reflexivity.
  - vm_compute. reflexivity.
  - repeat constructor.
  - vm_compute. reflexivity.
Qed.

(* and an empty reply to the command never reads as success *)
Example C16_empty_reply_example :
  snd (Exchange.run (control_breeze_device false (cfg_of idb keyb) now (make_remote set1) (Some true) None 0%Z None None false) (r0 :: sr :: [] :: [])) = Exc RuntimeError.
Proof. vm_compute. reflexivity. Qed.

(* C08: the reply used above is what the Spec encoder produces, and the theorem says what it decodes to *)
Require AS.Props.C08 AS.Props.C11 AS.Model.ScheduleParser AS.Model.Clock.
Example C08_thermostat_example :
  parse_thermostat_reply (encode_thermostat_reply (repeat 0 76) [0; 0] (repeat 0 20) 250 (if false then 1 else 0)
                            (match unhex_str "04" with [m] => m | _ => 0 end) 24 (16 * 2 + (if true then 1 else 0)) (pad0 8 (s2l "ELEC7001")))
  = Ok {| tf_on := false; tf_mode := "COOL"; tf_fan := "MEDIUM"; tf_temp10 := 250; tf_target := 24; tf_swing_on := true; tf_remote := s2l "ELEC7001" |}.
Proof.
  apply (C08.C08_thermostat_reply (repeat 0 76) [0; 0] (repeat 0 20) 250 false "COOL" "04" "cool" 24 "MEDIUM" "2" "medium" 2 true (s2l "ELEC7001"));
    try reflexivity; try (vm_compute; tauto); try (vm_compute; lia); vm_compute; discriminate.
Qed.

(* C11: a zone two hours ahead that moves to three hours ahead at t = 1 700 010 000 (02:20 local time): 10:30 exists on that day,
   is encoded to an instant whose local time is 10:30 and decodes back *)
Import ScheduleParser Clock.
Definition zone1 : zone := {| z_default := 7200; z_trans := [(1700010000, 10800)%Z] |}.
Example C11_roundtrip_example :
  exists t, time_to_hexadecimal_timestamp_z false zone1 1700000000%Z (s2l "10:30") = Ok (hexlify (le32 (Z.to_N t))) /\
            hexadecimale_timestamp_to_localtime zone1 (hexlify (le32 (Z.to_N t))) = Ok (s2l "10:30").
Proof.
  destruct (C11.C11_roundtrip zone1 1700000000%Z 630 ltac:(reflexivity)) as [t [H1 [_ H3]]].
  - exists 1700033400%Z. vm_compute. reflexivity.
  - vm_compute. split; [discriminate|reflexivity].
  - exists t. split; [exact H1|exact H3].
Qed.

(* C03: two operations on one connection (a control command whose login is answered with session a1b2c3d4, then a name
   change whose login is answered with session 11223344), and a third after a login that gets no answer: four frames plus a
   lone login frame; bytes 8-11 of each command frame are the session of the login reply just before it (replies 0 and 2 of
   the script), never an earlier one *)
Require AS.Props.C03.
Require Import AS.Model.Ops AS.Model.Session AS.Spec.Session.
Definition r1 : bytes := repeat 7 8 ++ [17; 34; 51; 68] ++ repeat 0 8.
Definition seq3 : list (N * op) := [(now, OControl true 90%Z); (now + 5, OSetName (s2l "boiler")); (now + 9, OStop)].
Example C03_sequence_example :
  let '(fs, rs) := run_seq (cfg_of idb keyb) seq3 [r0; [1]; r1; [1]] in
  map (pyslice 8 12) fs = [[0; 0; 0; 0]; [161; 178; 195; 212]; [0; 0; 0; 0]; [17; 34; 51; 68]; [0; 0; 0; 0]] /\
  map (pyslice 24 28) fs = [le32 now; le32 now; le32 (now + 5); le32 (now + 5); le32 (now + 9)] /\
  rs = [Ok (s2l "ok:1"); Ok (s2l "ok:1"); Exc RuntimeError] /\
  (fs, rs) = (concat (map fst (alone (cfg_of idb keyb) seq3 [r0; [1]; r1; [1]])), map snd (alone (cfg_of idb keyb) seq3 [r0; [1]; r1; [1]])).
Proof.
  pose proof (C03.C03_operations_are_independent (cfg_of idb keyb) seq3 [r0; [1]; r1; [1]]) as H.
  destruct (run_seq (cfg_of idb keyb) seq3 [r0; [1]; r1; [1]]) as [fs rs] eqn:E.
  split; [|split; [|split; [|exact H]]]; vm_compute in E; inversion E; subst; vm_compute; reflexivity.
Qed.

(* C10: in UTC on 14 Nov 2023 a schedule 07:05 - 23:59 on Monday and Sunday is created; listed back from slot 3 two days later it
   shows those days and those times *)
Require AS.Props.C10.
Require Import AS.Model.Clock AS.Model.NextRun AS.Model.ScheduleParser AS.Proofs.WeekdayProofs AS.Proofs.ReadBack.
Lemma c10_e1 : exists_today utc 1700000000 425.
Proof. split; [exists 1699945500%Z; vm_compute; reflexivity|vm_compute; split; [discriminate|reflexivity]]. Qed.
Lemma c10_e2 : exists_today utc 1700000000 1439.
Proof. split; [exists 1700006340%Z; vm_compute; reflexivity|vm_compute; split; [discriminate|reflexivity]]. Qed.
Lemma c10_nd : NoDup [0; 6]%nat. Proof. repeat constructor; cbn; intuition lia. Qed.
Lemma c10_bd : forall d, In d [0; 6]%nat -> (d < n_days)%nat. Proof. intros d [<-|[<-|[]]]; vm_compute; lia. Qed.
Example C10_read_back_example :
  exists dur disp,
    parse_schedule false false utc 1700172800 (hexlify (record 3 1 (sum_bits [0; 6]%nat) 0 (Z.to_N (instant utc 1700000000 425)) (Z.to_N (instant utc 1700000000 1439)) 0 0 0 0)) =
    Ok {| sc_id := s2l "3"; sc_recurring := true; sc_days := [0; 6]%nat; sc_start := s2l "07:05"; sc_end := s2l "23:59"; sc_duration := dur; sc_display := disp |}.
Proof.
  pose proof (C10.C10_created_schedule_reads_back utc 1700000000 1700172800 425 1439 [0; 6]%nat 3 1 0 0 0 0 0
          ltac:(reflexivity) ltac:(reflexivity) c10_e1 c10_e2 ltac:(discriminate) c10_nd c10_bd ltac:(reflexivity)) as H.
  cbv zeta in H. destruct H as (_ & _ & _ & _ & dur & disp & H).
  exists dur, disp. exact H.
Qed.
