(* C07 — The bridge delivers each valid broadcast once, in order, whatever else arrives *)
Require Import AS.Base.Prelude AS.Base.Hex AS.Base.Dec AS.Model.Bridge AS.Proofs.DispatchProofs.

(* for every event sequence on any ports and every pattern of raising callbacks (event loop modelled as: an exception leaving datagram_received is recorded and the next datagram is processed) *)
Theorem C07_exactly_once_in_order lm lt raises events : calls (loop_run lm lt raises events) = expected lm lt events.
Proof. exact (C07_calls lm lt raises events). Qed.
Print Assumptions C07_exactly_once_in_order.

(* per port, independent of the other ports *)
Theorem C07_per_port_independent lm lt raises events p :
  on_port p (calls (loop_run lm lt raises events)) =
  flat_map (fun d => match delivered lm lt d with Some x => [x] | None => [] end) (on_port p events).
Proof. exact (C07_per_port lm lt raises events p). Qed.
Print Assumptions C07_per_port_independent.

