(* C13 — The next-run text names the earliest upcoming run of the schedule *)
Require Import AS.Base.Prelude AS.Model.NextRun AS.Spec.NextRun AS.Proofs.NextRunProofs.

(* day choice = earliest future occurrence, for every weekday, flag and duplicate-free selection in any order *)
Local Open Scope nat_scope.
Theorem C13_choice w f l : w < 7 -> NoDup l -> (forall d, In d l -> d < 7) ->
  pretty_next_run_core false w f l = next_run_spec w f l.
Proof. exact (next_run_core_correct w f l). Qed.
Print Assumptions C13_choice.
Local Close Scope nat_scope.

