(* C13 — The next-run text names the earliest upcoming run of the schedule *)
Require Import AS.Base.Prelude AS.Base.Dec AS.Model.ScheduleTools AS.Model.NextRun AS.Model.ScheduleParser AS.Spec.NextRun
  AS.Proofs.NextRunProofs AS.Proofs.NextRunText.

(* the Spec (Spec/NextRun.v): k(d) = days ahead of weekday d seen from today's weekday w, 7 instead of 0 when today's start
   is not still ahead; the text follows the minimum: 0 today, 1 tomorrow, else "next <weekday (w + k) mod 7>" *)

(* day choice = earliest future occurrence, for every weekday, flag and duplicate-free selection in any order *)
Theorem C13_choice w f l : w < 7 -> NoDup l -> (forall d, In d l -> d < 7) ->
  pretty_next_run_core false w f l = next_run_spec w f l.
Proof. exact (next_run_core_correct w f l). Qed.
Print Assumptions C13_choice.

(* the whole text, for every zone table, every instant, every start minute and every duplicate-free set of Days in
   any order: local weekday and local minute of the instant decide, the start is compared as a minute of the day *)
Theorem C13_text z now s ds : (s < 1440)%N -> NoDup ds -> (forall d, In d ds -> d < n_days) ->
  pretty_next_run false false z now (hhmm s) ds =
  text_of (next_run_spec (weekday_of z now) ((60 * fst (hm_of z now) + snd (hm_of z now) <? s)%N) ds) (hhmm s).
Proof. exact (next_run_text z now s ds). Qed.
Print Assumptions C13_text.

(* 'today' only if today is selected and the start is still ahead; 'tomorrow' only if tomorrow's weekday is selected;
   otherwise the named weekday is selected, is not tomorrow, and is today's weekday only when today's time has passed
   (a full week ahead) *)
Theorem C13_named_day_is_selected w f l : w < 7 -> NoDup l -> (forall d, In d l -> d < 7) -> l <> [] ->
  match next_run_spec w f l with
  | Today => In w l /\ f = true
  | Tomorrow => In ((w + 1) mod 7) l
  | NextDay d => In d l /\ d <> (w + 1) mod 7 /\ (d = w -> f = false)
  | NREx _ => False
  end.
Proof. exact (spec_names_a_selected_day w f l). Qed.
Print Assumptions C13_named_day_is_selected.

Example C13_examples :
  next_run_spec 2 false [2; 4] = NextDay 4 /\ next_run_spec 2 false [2; 3] = Tomorrow /\
  next_run_spec 6 false [6; 0] = Tomorrow /\ next_run_spec 2 false [2] = NextDay 2 /\ next_run_spec 2 true [2; 4] = Today.
Proof. vm_compute. repeat split. Qed.
