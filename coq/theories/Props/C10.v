(* C10 — Listed schedules decode exactly; a created schedule reads back unchanged *)
Require Import AS.Base.Prelude AS.Base.Hex AS.Base.Dec AS.Gen.Extracted AS.Model.ScheduleTools AS.Model.NextRun AS.Model.ScheduleParser AS.Spec.Encoders AS.Proofs.ScheduleParserProofs AS.Proofs.ScheduleListProofs.

(* one whole record, every zone table: id, recurrence, day set, local start and end are what the record holds *)
Local Open Scope N_scope.
Theorem C10_record lu ln z now id en mask st s e t0 t1 t2 t3 ds :
  id < 256 -> mask < 256 -> s < 4294967296 -> e < 4294967296 ->
  (mask = 0 /\ ds = [] \/ mask <> 0 /\ bit_summary_to_days mask = Ok ds) ->
  exists dur disp,
    parse_schedule lu ln z now (hexlify (record id en mask st s e t0 t1 t2 t3)) =
    match calc_duration (fmt_hm z s) (fmt_hm z e), pretty_next_run lu ln z now (fmt_hm z s) ds with
    | Ok d, Ok p => Ok {| sc_id := str_N id; sc_recurring := negb (mask =? 0); sc_days := ds;
                          sc_start := fmt_hm z s; sc_end := fmt_hm z e; sc_duration := d; sc_display := p |}
    | Exc x, _ => Exc x
    | _, Exc x => Exc x
    end /\ dur = calc_duration (fmt_hm z s) (fmt_hm z e) /\ disp = pretty_next_run lu ln z now (fmt_hm z s) ds.
Proof. exact (parse_record lu ln z now id en mask st s e t0 t1 t2 t3 ds). Qed.
Print Assumptions C10_record.
Local Close Scope N_scope.

(* chunking the region of whole records gives back the records *)
Local Open Scope N_scope.
Theorem C10_chunks : forall (recs : list bytes) fuel, (forall r, In r recs -> length r = 16%nat) ->
  (length recs <= fuel)%nat ->
  chunks fuel 32 (hexlify (concat recs)) = map hexlify recs.
Proof. exact (chunks_records). Qed.
Print Assumptions C10_chunks.
Local Close Scope N_scope.

(* the record region of a reply *)
Local Open Scope N_scope.
Theorem C10_region (hdr body tail : bytes) : length hdr = 45%nat -> length tail = 4%nat ->
  let hex := hexlify (hdr ++ body ++ tail) in
  pyslice 90 (length hex - 8) hex = hexlify body.
Proof. exact (schedule_region hdr body tail). Qed.
Print Assumptions C10_region.
Local Close Scope N_scope.


(* list level, every zone table: a reply holding whole records is parsed record by record, the first record of a slot id wins *)
Local Open Scope N_scope.
Theorem C10_list lu ln z now hdr recs tail :
  length hdr = 45%nat -> length tail = 4%nat -> (forall r, In r recs -> length r = 16%nat) ->
  get_schedules lu ln z now (encode_schedules_reply hdr recs tail) = parse_all lu ln z now recs.
Proof. exact (get_schedules_of_records lu ln z now hdr recs tail). Qed.
Print Assumptions C10_list.
Theorem C10_one_schedule_per_slot lu ln z now recs l : parse_all lu ln z now recs = Ok l -> NoDup (map sc_id l).
Proof. exact (parsed_ids_are_distinct lu ln z now recs l). Qed.
Print Assumptions C10_one_schedule_per_slot.
Theorem C10_first_record_wins lu ln z now recs parsed :
  Forall2 (fun r s => parse_schedule lu ln z now (hexlify r) = Ok s) recs parsed ->
  parse_all lu ln z now recs = Ok (first_per_id [] parsed).
Proof. exact (parse_all_ok lu ln z now recs parsed). Qed.
Print Assumptions C10_first_record_wins.
(* every whole record with a day mask of 0 or a decodable one parses (duration and display never fail on decoded clock texts) to
   its id, recurrence flag, day set and local start / end *)
Theorem C10_record_always_parses z now id en mask st s e t0 t1 t2 t3 ds :
  id < 256 -> mask < 256 -> s < 4294967296 -> e < 4294967296 ->
  (mask = 0 /\ ds = [] \/ mask <> 0 /\ bit_summary_to_days mask = Ok ds) ->
  exists dur disp, parse_schedule false false z now (hexlify (record id en mask st s e t0 t1 t2 t3)) =
    Ok {| sc_id := str_N id; sc_recurring := negb (mask =? 0); sc_days := ds; sc_start := fmt_hm z s; sc_end := fmt_hm z e;
          sc_duration := dur; sc_display := disp |}.
Proof. exact (record_parses z now id en mask st s e t0 t1 t2 t3 ds). Qed.
Print Assumptions C10_record_always_parses.
