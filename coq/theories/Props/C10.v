(* C10 — Listed schedules decode exactly; a created schedule reads back unchanged *)
Require Import AS.Base.Prelude AS.Base.Hex AS.Base.Dec AS.Gen.Extracted AS.Model.ScheduleTools AS.Model.NextRun AS.Model.ScheduleParser AS.Spec.Encoders AS.Proofs.ScheduleParserProofs AS.Proofs.ScheduleListProofs.

(* one whole record, every zone table: id, recurrence, day set, local start and end are what the record holds *)
Local Open Scope N_scope.
Theorem C10_record lu ln z now id en mask st s e t0 t1 t2 t3 ds :
  id < 256 -> mask < 256 -> s < 4294967296 -> e < 4294967296 ->
  (mask = 0 /\ ds = [] \/ mask <> 0 /\ bit_summary_to_days mask = Ok ds) ->
  exists dur disp,
    parse_schedule lu ln z now (hexlify (record id en mask st s e t0 t1 t2 t3)) =
    match calc_duration (fmt_hm z s) (fmt_hm z e), pretty_next_run lu ln z now (fmt_hm z s) ds with
    | Ok d, Ok p => Ok {| sc_id := str_N id; sc_recurring := negb (mask =? 0); sc_days := ds;
                          sc_start := fmt_hm z s; sc_end := fmt_hm z e; sc_duration := d; sc_display := p |}
    | Exc x, _ => Exc x
    | _, Exc x => Exc x
    end /\ dur = calc_duration (fmt_hm z s) (fmt_hm z e) /\ disp = pretty_next_run lu ln z now (fmt_hm z s) ds.
Proof. exact (parse_record lu ln z now id en mask st s e t0 t1 t2 t3 ds). Qed.
Print Assumptions C10_record.
Local Close Scope N_scope.

(* chunking the region of whole records gives back the records *)
Local Open Scope N_scope.
Theorem C10_chunks : forall (recs : list bytes) fuel, (forall r, In r recs -> length r = 16%nat) ->
  (length recs <= fuel)%nat ->
  chunks fuel 32 (hexlify (concat recs)) = map hexlify recs.
Proof. exact (chunks_records). Qed.
Print Assumptions C10_chunks.
Local Close Scope N_scope.

(* the record region of a reply *)
Local Open Scope N_scope.
Theorem C10_region (hdr body tail : bytes) : length hdr = 45%nat -> length tail = 4%nat ->
  let hex := hexlify (hdr ++ body ++ tail) in
  pyslice 90 (length hex - 8) hex = hexlify body.
Proof. exact (schedule_region hdr body tail). Qed.
Print Assumptions C10_region.
Local Close Scope N_scope.


(* list level, every zone table: a reply holding whole records is parsed record by record, the first record of a slot id wins *)
Local Open Scope N_scope.
Theorem C10_list lu ln z now hdr recs tail :
  length hdr = 45%nat -> length tail = 4%nat -> (forall r, In r recs -> length r = 16%nat) ->
  get_schedules lu ln z now (encode_schedules_reply hdr recs tail) = parse_all lu ln z now recs.
Proof. exact (get_schedules_of_records lu ln z now hdr recs tail). Qed.
Print Assumptions C10_list.
Theorem C10_one_schedule_per_slot lu ln z now recs l : parse_all lu ln z now recs = Ok l -> NoDup (map sc_id l).
Proof. exact (parsed_ids_are_distinct lu ln z now recs l). Qed.
Print Assumptions C10_one_schedule_per_slot.
Theorem C10_first_record_wins lu ln z now recs parsed :
  Forall2 (fun r s => parse_schedule lu ln z now (hexlify r) = Ok s) recs parsed ->
  parse_all lu ln z now recs = Ok (first_per_id [] parsed).
Proof. exact (parse_all_ok lu ln z now recs parsed). Qed.
Print Assumptions C10_first_record_wins.
(* every whole record with a day mask of 0 or a decodable one parses (duration and display never fail on decoded clock texts) to
   its id, recurrence flag, day set and local start / end *)
Theorem C10_record_always_parses z now id en mask st s e t0 t1 t2 t3 ds :
  id < 256 -> mask < 256 -> s < 4294967296 -> e < 4294967296 ->
  (mask = 0 /\ ds = [] \/ mask <> 0 /\ bit_summary_to_days mask = Ok ds) ->
  exists dur disp, parse_schedule false false z now (hexlify (record id en mask st s e t0 t1 t2 t3)) =
    Ok {| sc_id := str_N id; sc_recurring := negb (mask =? 0); sc_days := ds; sc_start := fmt_hm z s; sc_end := fmt_hm z e;
          sc_duration := dur; sc_display := disp |}.
Proof. exact (record_parses z now id en mask st s e t0 t1 t2 t3 ds). Qed.
Print Assumptions C10_record_always_parses.

(* create / read back, every zone table, every instant: for clock times that exist today and a non-empty duplicate-free day
   collection, what create_schedule's encoders produce (C11's instants for start and end, C12's mask for the days - the content of
   the record C02_create_schedule puts on the wire) is read back, from a record holding these three values in any slot and at any
   later moment, as exactly that day set and those HH:MM times *)
Require Import AS.Model.Clock AS.Proofs.WeekdayProofs AS.Proofs.ReadBack.
Theorem C10_created_schedule_reads_back z now later hs he l id en st t0 t1 t2 t3 :
  (hs < 1440)%N -> (he < 1440)%N -> exists_today z now hs -> exists_today z now he ->
  l <> [] -> NoDup l -> (forall d, In d l -> (d < n_days)%nat) -> (id < 256)%N ->
  let ts := Z.to_N (instant z now hs) in let te := Z.to_N (instant z now he) in
  time_to_hexadecimal_timestamp_z false z now (hhmm hs) = Ok (hexlify (le32 ts)) /\
  time_to_hexadecimal_timestamp_z false z now (hhmm he) = Ok (hexlify (le32 te)) /\
  weekdays_to_hexadecimal (ASet l) = Ok (hexbyte (sum_bits l)) /\ weekdays_to_hexadecimal (ASeq l) = Ok (hexbyte (sum_bits l)) /\
  exists dur disp,
    parse_schedule false false z later (hexlify (record id en (sum_bits l) st ts te t0 t1 t2 t3)) =
    Ok {| sc_id := str_N id; sc_recurring := true; sc_days := filter (memb l) all_days;
          sc_start := hhmm hs; sc_end := hhmm he; sc_duration := dur; sc_display := disp |}.
Proof. exact (created_schedule_reads_back z now later hs he l id en st t0 t1 t2 t3). Qed.
Print Assumptions C10_created_schedule_reads_back.
