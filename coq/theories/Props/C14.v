(* C14 — A schedule's duration is (end - start) modulo 24 hours *)
Require Import AS.Base.Prelude AS.Base.Dec AS.Model.ScheduleTools AS.Proofs.ScheduleProofs.

Theorem C14_duration : forall s e, (s < 1440)%N -> (e < 1440)%N ->
  calc_duration (hhmm s) (hhmm e) = Ok (fmt_hmmss (((e + 1440 - s) mod 1440) * 60)).
Proof. exact calc_duration_spec. Qed.
Print Assumptions C14_duration.

Example C14_examples :
  calc_duration (s2l "13:00") (s2l "14:00") = Ok (s2l "1:00:00") /\
  calc_duration (s2l "14:00") (s2l "13:00") = Ok (s2l "23:00:00") /\
  calc_duration (s2l "23:59") (s2l "00:00") = Ok (s2l "0:01:00") /\
  calc_duration (s2l "07:05") (s2l "07:05") = Ok (s2l "0:00:00").
Proof. vm_compute. repeat split. Qed.
