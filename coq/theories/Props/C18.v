(* C18 — The TCP client is connected exactly between connect and disconnect *)
Require Import AS.Base.Prelude AS.Model.Lifecycle AS.Proofs.LifecycleProofs.

(* for all action sequences *)
Theorem C18_lifecycle acts : let s := crun acts in
  (* after a disconnect (explicit or by leaving the context, also through an exception) the client is
     disconnected and the device holds no open connection from it *)
  (connected (c_disconnect s) = false /\ dev_open (c_disconnect s) = 0%nat) /\
  (forall l b, let s' := fst (cstep s (CWith l b)) in l = true -> connected s' = false /\ dev_open s' = 0%nat) /\
  (* a successful connect connects; a refused one raises and changes nothing *)
  (connected (fst (c_connect true s)) = true /\ dev_open (fst (c_connect true s)) = 1%nat) /\
  (c_connect false s = (s, CRaised)) /\
  (* disconnect twice is the same as once *)
  c_disconnect (c_disconnect s) = c_disconnect s.
Proof. exact (C18_model acts). Qed.
Print Assumptions C18_lifecycle.

