(* C18 — The TCP client is connected exactly between connect and disconnect *)
Require Import AS.Base.Prelude AS.Model.Lifecycle AS.Proofs.LifecycleProofs.

(* for all action sequences *)
Theorem C18_lifecycle acts : let s := crun acts in
  (* after a disconnect (explicit or by leaving the context, also through an exception) the client is
     disconnected and the device holds no open connection from it *)
  (connected (c_disconnect s) = false /\ dev_open (c_disconnect s) = 0%nat) /\
  (forall l b, let s' := fst (cstep s (CWith l b)) in l = true -> connected s' = false /\ dev_open s' = 0%nat) /\
  (* a successful connect connects; a refused one raises and changes nothing *)
  (connected (fst (c_connect true s)) = true /\ dev_open (fst (c_connect true s)) = 1%nat) /\
  (c_connect false s = (s, CRaised)) /\
  (* disconnect twice is the same as once *)
  c_disconnect (c_disconnect s) = c_disconnect s.
Proof. exact (C18_model acts). Qed.
Print Assumptions C18_lifecycle.


(* the same as a refinement of the property's own reading of a history (Spec/Client.v): over every action sequence the
   client is connected exactly when the last successful connect has not been followed by a disconnect (explicit, or by
   leaving an async context, also through an exception); the device then holds exactly one open connection of this client,
   otherwise none; and every connection the device ever accepted and no longer holds was seen by it as end-of-stream *)
Require Import AS.Spec.Client AS.Proofs.ClientTrace.
Theorem C18_connected_exactly_between acts :
  connected (crun acts) = spec_connected acts /\
  dev_open (crun acts) = (if spec_connected acts then 1 else 0)%nat /\
  (dev_open (crun acts) + dev_eofs (crun acts) = spec_accepted acts)%nat.
Proof. exact (client_refines_history acts). Qed.
Print Assumptions C18_connected_exactly_between.

(* the reading is not constant: a history on which it says connected, and one on which it says disconnected after three
   accepted connections *)
Example C18_history_example :
  spec_connected [CConnect false; CConnect true; COperation true] = true /\
  spec_connected [CConnect true; CConnect true; CWith true true; CWith false false] = false /\
  spec_accepted [CConnect true; CConnect true; CWith true true; CWith false false] = 3%nat.
Proof. vm_compute. repeat split. Qed.
