(* C09 — No device reply can crash the client or be mistaken for success *)
Require Import AS.Base.Prelude AS.Base.Hex AS.Base.Dec AS.Base.Template AS.Base.Exchange AS.Gen.Extracted AS.Model.DeviceTools
  AS.Model.Messages AS.Model.Remotes AS.Model.Api AS.Proofs.TotalityProofs AS.Proofs.ApiProofs AS.Proofs.Queries.
Local Open Scope N_scope.

(* the three reply parsers raise nothing but what the API wraps into RuntimeError (KeyError / ValueError and their
   subclasses), for every reply; OverflowError of datetime.time is unreachable from a 4-byte field *)
Theorem C09_type1_parser_exceptions r e : parse_state_reply r = Exc e -> kv e.
Proof. exact (parse_state_reply_exn r e). Qed.
Print Assumptions C09_type1_parser_exceptions.
Theorem C09_thermostat_parser_exceptions r e : parse_thermostat_reply r = Exc e -> wrapped e = true.
Proof. exact (parse_thermostat_reply_exn r e). Qed.
Print Assumptions C09_thermostat_parser_exceptions.
Theorem C09_shutter_parser_exceptions r e : parse_shutter_reply r = Exc e -> wrapped e = true.
Proof. exact (parse_shutter_reply_exn r e). Qed.
Print Assumptions C09_shutter_parser_exceptions.

(* each state query, for every script of device replies: a parsed response or RuntimeError, never another exception;
   one frame and RuntimeError on an empty login reply, two frames otherwise *)
Theorem C09_get_state c now script : wf_cfg c -> now < 4294967296 -> script_wf script ->
  let '(fs, r) := Exchange.run (get_state c now) script in
  ((exists v, r = Ok v) \/ r = Exc RuntimeError) /\
  (hd [] script = [] -> length fs = 1%nat /\ r = Exc RuntimeError) /\
  (hd [] script <> [] -> length fs = 2%nat).
Proof. exact (get_state_exchange c now script). Qed.
Print Assumptions C09_get_state.
Theorem C09_get_breeze_state c now script : wf_cfg c -> now < 4294967296 -> script_wf script ->
  let '(fs, r) := Exchange.run (get_breeze_state c now) script in
  ((exists v, r = Ok v) \/ r = Exc RuntimeError) /\
  (hd [] script = [] -> length fs = 1%nat /\ r = Exc RuntimeError) /\ (hd [] script <> [] -> length fs = 2%nat).
Proof. intros Hc Hn. exact (breeze_state_exchange c now Hc Hn script). Qed.
Print Assumptions C09_get_breeze_state.
Theorem C09_get_shutter_state c now script : wf_cfg c -> now < 4294967296 -> script_wf script ->
  let '(fs, r) := Exchange.run (get_shutter_state c now) script in
  ((exists v, r = Ok v) \/ r = Exc RuntimeError) /\
  (hd [] script = [] -> length fs = 1%nat /\ r = Exc RuntimeError) /\ (hd [] script <> [] -> length fs = 2%nat).
Proof. intros Hc Hn. exact (shutter_state_exchange c now Hc Hn script). Qed.
Print Assumptions C09_get_shutter_state.

(* empty login reply: every type-2 operation raises RuntimeError having written the login frame only *)
Theorem C09_type2_operation_empty_login c now t extra fix_len script : wf_cfg c -> now < 4294967296 -> hd [] script = [] ->
  let '(fs, r) := Exchange.run (type2_op false c now t extra fix_len) script in length fs = 1%nat /\ r = Exc RuntimeError.
Proof. intros Hc Hn. exact (type2_op_empty_login c now Hc Hn t extra fix_len script). Qed.
Print Assumptions C09_type2_operation_empty_login.
Theorem C09_thermostat_control_empty_login lg c now r state mode target fan swing update script :
  wf_cfg c -> now < 4294967296 -> hd [] script = [] ->
  let '(fs, res) := Exchange.run (control_breeze_device lg c now r state mode target fan swing update) script in
  length fs = 1%nat /\ res = Exc RuntimeError.
Proof. exact (breeze_empty_login lg c now r state mode target fan swing update script). Qed.
Print Assumptions C09_thermostat_control_empty_login.

(* a generic response reports success iff the reply is non-empty *)
Theorem C09_successful_iff r : successful r = true <-> r <> [].
Proof. exact (successful_iff r). Qed.
Print Assumptions C09_successful_iff.
