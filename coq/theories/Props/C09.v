(* C09 — No device reply can crash the client or be mistaken for success *)
Require Import AS.Base.Prelude AS.Base.Hex AS.Base.Dec AS.Base.Template AS.Base.Exchange AS.Gen.Extracted AS.Model.DeviceTools AS.Model.Messages AS.Model.Remotes AS.Model.Api AS.Proofs.TotalityProofs AS.Proofs.ApiProofs.

(* the type-1 reply parser raises nothing but KeyError / ValueError, for every reply *)
Local Open Scope N_scope.
Theorem C09_parser_exceptions r e : parse_state_reply r = Exc e -> kv e.
Proof. exact (parse_state_reply_exn r e). Qed.
Print Assumptions C09_parser_exceptions.
Local Close Scope N_scope.

(* partial (type-1 state query): for every reply script the call returns a response or raises RuntimeError; one frame on an empty login reply *)
Local Open Scope N_scope.
Theorem C09_get_state_total_partial c now script : wf_cfg c -> now < 4294967296 -> script_wf script ->
  let '(fs, r) := Exchange.run (get_state c now) script in
  ((exists v, r = Ok v) \/ r = Exc RuntimeError) /\
  (hd [] script = [] -> length fs = 1%nat /\ r = Exc RuntimeError) /\
  (hd [] script <> [] -> length fs = 2%nat).
Proof. exact (get_state_exchange c now script). Qed.
Print Assumptions C09_get_state_total_partial.
Local Close Scope N_scope.

(* thermostat control on an empty login reply: RuntimeError and no further frame *)
Local Open Scope N_scope.
Theorem C09_breeze_empty_login lg c now r state mode target fan swing update script :
  wf_cfg c -> now < 4294967296 -> hd [] script = [] ->
  let '(fs, res) := Exchange.run (control_breeze_device lg c now r state mode target fan swing update) script in
  length fs = 1%nat /\ res = Exc RuntimeError.
Proof. exact (breeze_empty_login lg c now r state mode target fan swing update script). Qed.
Print Assumptions C09_breeze_empty_login.
Local Close Scope N_scope.

