(* golden check: the model reproduces frames pinned by tests/test_api_packet_crc_signing.py shapes *)
Require Import AS.Base.Prelude AS.Base.Hex AS.Base.Exchange AS.Model.Api.
Definition c0 := {| device_id := s2l "ab1c2d"; device_key := s2l "18" |}.
Definition login_reply : bytes := match unhexlify (s2l "fef02c000400a600a1b2c3d4ff0302110000000000000000") with Some b => b | None => [] end.
Eval vm_compute in
  let '(fs, r) := run (control_device c0 1790000000 (s2l "1") 15) [login_reply; [1]] in
  (map hexlify fs, r).
Eval vm_compute in
  let '(fs, r) := run (get_state c0 1790000000) [[]] in (length fs, match r with Ok _ => 0 | Exc RuntimeError => 1 | Exc _ => 2 end)%nat.
Eval vm_compute in
  let '(fs, r) := run (stop_shutter c0 1790000000) [login_reply; [1]] in (map (fun f => pyslice 0 16 (hexlify f)) fs).
