(* C12 — Weekday sets and their one-byte mask are a bijection *)
Require Import AS.Base.Prelude AS.Base.Hex AS.Gen.Extracted AS.Model.ScheduleTools AS.Proofs.WeekdayProofs.
Open Scope N_scope.

(* encoding a non-empty duplicate-free collection (sequence or set form): two hex digits of the sum,
   which is even, within 2..254, has exactly the members' bits, and decodes to exactly that set *)
Theorem C12_mask_facts : forall l, l <> [] -> NoDup l -> (forall d, In d l -> (d < n_days)%nat) ->
  let m := sum_bits l in
  fmt_02x m = hexbyte m /\ m < 256 /\ N.even m = true /\ 2 <= m <= 254 /\
  (forall d, (d < n_days)%nat -> N.testbit m (N.of_nat d + 1) = memb l d) /\
  bit_summary_to_days m = Ok (filter (memb l) all_days).
Proof. exact core_facts. Qed.
Print Assumptions C12_mask_facts.
Theorem C12_encode_seq : forall l, l <> [] -> NoDup l -> (forall d, In d l -> (d < n_days)%nat) ->
  weekdays_to_hexadecimal (ASeq l) = Ok (hexbyte (sum_bits l)).
Proof. exact weekdays_encode_seq. Qed.
Print Assumptions C12_encode_seq.
Theorem C12_encode_set : forall l, l <> [] -> NoDup l -> (forall d, In d l -> (d < n_days)%nat) ->
  weekdays_to_hexadecimal (ASet l) = Ok (hexbyte (sum_bits l)).
Proof. exact weekdays_encode_set. Qed.
Print Assumptions C12_encode_set.
Theorem C12_reject_duplicates : forall l, l <> [] -> ~ NoDup l -> weekdays_to_hexadecimal (ASeq l) = Exc ValueError.
Proof. exact weekdays_reject_dup. Qed.
Print Assumptions C12_reject_duplicates.
Theorem C12_reject_empty : weekdays_to_hexadecimal (ASeq []) = Exc ValueError /\ weekdays_to_hexadecimal (ASet []) = Exc ValueError.
Proof. exact weekdays_reject_empty. Qed.
Print Assumptions C12_reject_empty.
Theorem C12_reject_mask : forall m, m < 2 \/ 254 < m -> bit_summary_to_days m = Exc ValueError.
Proof. exact mask_reject. Qed.
Print Assumptions C12_reject_mask.
