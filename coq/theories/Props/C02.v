(* C02 — Each operation's frame encodes exactly that operation and the caller's arguments *)
Require Import AS.Base.Prelude AS.Base.Hex AS.Base.Template AS.Base.Exchange AS.Gen.Extracted AS.Spec.Frame AS.Spec.FrameLayout
  AS.Spec.FrameSpec AS.Model.DeviceTools AS.Model.Api AS.Proofs.LayoutMatch AS.Proofs.SpecFrames AS.Proofs.SpecOps
  AS.Model.ScheduleTools AS.Proofs.CreateExact.
Local Open Scope N_scope.

(* The Spec (Spec/FrameLayout.v, Spec/FrameSpec.v): an independently written byte layout per operation and the declared
   meaning of each argument; spec_<operation> gives the frame that must be written (Frame), says that the call must
   raise having written the login frame only (MustRaise), or leaves the input alone (Unspecified).
   outcome_is x v: x = ([login frame of the Spec; command frame of the Spec], device answer) when v = Frame,
   x = ([login frame], exception) when v = MustRaise.
   Premises everywhere: a 3-byte device id, a 1-byte key, a clock reading below 2^32, a login reply of at least 12 bytes. *)

Section C02.
Variables (idb : bytes) (keyb : N) (now : N) (r0 : bytes) (rest : list bytes).
Hypothesis Lid : length idb = 3%nat.
Hypothesis Hid : Forall (fun b => b < 256) idb.
Hypothesis Hkey : keyb < 256.
Hypothesis Hnow : now < 4294967296.
Hypothesis Hr0 : Forall (fun b => b < 256) r0.
Hypothesis Lr0 : (12 <= length r0)%nat.
Let c := cfg_of idb keyb.
Let h := hdr_args (pyslice 8 12 r0) now idb.

(* on/off flag and timer seconds = 60 x minutes, zero when no timer; a timer beyond 32 bits raises *)
Theorem C02_control_device (on : bool) minutes :
  outcome_is idb keyb now rest (Exchange.run (control_device_op false c now (s2l (if on then "1" else "0")) minutes) (r0 :: rest))
             (spec_control h on minutes).
Proof. exact (control_exact idb keyb now r0 rest Lid Hid Hkey Hnow Hr0 Lr0 on minutes). Qed.

(* auto-shutdown seconds: whole minutes within 1 h .. 23 h 59 m, anything else raises *)
Theorem C02_set_auto_shutdown secs :
  outcome_is idb keyb now rest (Exchange.run (set_auto_shutdown_op false c now secs) (r0 :: rest)) (spec_auto_shutdown h secs).
Proof. exact (auto_shutdown_exact idb keyb now r0 rest Lid Hid Hkey Hnow Hr0 Lr0 secs). Qed.

(* the name as UTF-8 zero-padded to exactly 32 bytes; fewer than 2 bytes or more than 32 bytes raise *)
Theorem C02_set_device_name name : Forall (fun b => b < 256) name ->
  outcome_is idb keyb now rest (Exchange.run (set_device_name_op false c now name) (r0 :: rest)) (spec_set_name h name).
Proof. exact (set_name_exact idb keyb now r0 rest Lid Hid Hkey Hnow Hr0 Lr0 name). Qed.

Theorem C02_get_schedules :
  outcome_is idb keyb now rest (Exchange.run (get_schedules_op false c now) (r0 :: rest)) (frame_of L_get_schedules h).
Proof. exact (get_schedules_exact idb keyb now r0 rest Lid Hid Hkey Hnow Hr0 Lr0). Qed.

(* schedule slot id '0'..'7' *)
Theorem C02_delete_schedule slot :
  outcome_is idb keyb now rest (Exchange.run (delete_schedule_op false c now slot) (r0 :: rest)) (spec_delete h slot).
Proof. exact (delete_exact idb keyb now r0 rest Lid Hid Hkey Hnow Hr0 Lr0 slot). Qed.

Theorem C02_stop :
  outcome_is idb keyb now rest (Exchange.run (stop_op false c now) (r0 :: rest)) (frame_of L_runner_stop h).
Proof. exact (stop_exact idb keyb now r0 rest Lid Hid Hkey Hnow Hr0 Lr0). Qed.

(* shutter position 0-100 *)
Theorem C02_set_position p :
  outcome_is idb keyb now rest (Exchange.run (set_position_op false c now p) (r0 :: rest)) (spec_set_position h p).
Proof. exact (set_position_exact idb keyb now r0 rest Lid Hid Hkey Hnow Hr0 Lr0 p). Qed.

(* create_schedule with [base] = epoch second of today's local midnight (zones are C11's subject): both clock strings in
   H:MM / HH:MM form (else it raises), the days as a set or a duplicate-free sequence (duplicates raise) encoded as their
   bit mask (0 for none), start and end as LE32 of base + 60 x minutes (outside 32 bits raises), in the 11-byte record
   01 mask 01 start end placed in the create frame *)
Theorem C02_create_schedule base st en d l : days_list d l -> (forall x, In x l -> (x < n_days)%nat) ->
  outcome_is idb keyb now rest (Exchange.run (create_schedule_op false c now base st en d) (r0 :: rest)) (spec_create h base st en l).
Proof. exact (create_exact idb keyb now r0 rest Lid Hid Hkey Hnow Hr0 Lr0 base st en d l). Qed.
End C02.
Print Assumptions C02_control_device.
Print Assumptions C02_set_auto_shutdown.
Print Assumptions C02_set_device_name.
Print Assumptions C02_get_schedules.
Print Assumptions C02_delete_schedule.
Print Assumptions C02_stop.
Print Assumptions C02_set_position.
Print Assumptions C02_create_schedule.

(* the schedule record and the remaining frames (create_schedule, the state queries, thermostat frames): every packet
   template of the sources equals, piece by piece, the independent layout; the record encoders are C11's and C12's theorems *)
Theorem C02_templates_are_the_layouts :
  matches T_LOGIN_PACKET_TYPE1 L_login1 = true /\ matches T_LOGIN2_PACKET_TYPE2 L_login2 = true /\
  matches T_GET_STATE_PACKET_TYPE1 L_get_state1 = true /\ matches T_GET_STATE_PACKET2_TYPE2 L_get_state2 = true /\
  matches T_SEND_CONTROL_PACKET L_control = true /\ matches T_SET_AUTO_OFF_SET_PACKET L_auto_off = true /\
  matches T_UPDATE_DEVICE_NAME_PACKET L_set_name = true /\ matches T_GET_SCHEDULES_PACKET L_get_schedules = true /\
  matches T_DELETE_SCHEDULE_PACKET L_delete = true /\ matches T_CREATE_SCHEDULE_PACKET L_create = true /\
  matches T_SCHEDULE_CREATE_DATA_FORMAT L_schedule_record = true /\
  matches T_BREEZE_COMMAND_PACKET L_breeze_command = true /\ matches T_BREEZE_UPDATE_STATUS_PACKET L_breeze_status = true /\
  matches T_RUNNER_STOP_COMMAND L_runner_stop = true /\ matches T_RUNNER_SET_POSITION L_set_position = true.
Proof.
  exact (conj M_login1 (conj M_login2 (conj M_get_state1 (conj M_get_state2 (conj M_control (conj M_auto_off
        (conj M_set_name (conj M_get_schedules (conj M_delete (conj M_create (conj M_record (conj M_breeze_command
        (conj M_breeze_status (conj M_runner_stop M_set_position)))))))))))))).
Qed.
Print Assumptions C02_templates_are_the_layouts.

(* whatever a call site writes is the Spec's frame for the same arguments (used for every frame above) *)
Theorem C02_written_frame_is_the_layout T L args (fix_len : bool) p p' out bs :
  matches T L = true -> format T args = Ok p ->
  (if fix_len then set_message_length false p else Ok p) = Ok p' ->
  sign_packet_with_crc_key p' = Ok out -> unhexlify out = Some bs -> frame_okb bs = true ->
  (fix_len = true -> pyslice 0 4 p = s2l "fef0") ->
  frame_of L args = Frame bs.
Proof. exact (written_is_spec T L args fix_len p p' out bs). Qed.
Print Assumptions C02_written_frame_is_the_layout.
