(* C02 — Each operation's frame encodes exactly that operation and the caller's arguments *)
Require Import AS.Base.Prelude AS.Base.Template AS.Gen.Extracted AS.Spec.FrameLayout AS.Proofs.LayoutMatch.

(* partial: every packet template of the sources is, piece by piece, the independently written byte layout of
   Spec/FrameLayout.v (so every fixed byte and the position and order of every argument are those of the protocol
   table); the encoders of the arguments are covered by the lemmas of C11, C12 and the correspondence streams *)
Theorem C02_templates_are_the_layouts_partial :
  matches T_LOGIN_PACKET_TYPE1 L_login1 = true /\ matches T_LOGIN2_PACKET_TYPE2 L_login2 = true /\
  matches T_GET_STATE_PACKET_TYPE1 L_get_state1 = true /\ matches T_GET_STATE_PACKET2_TYPE2 L_get_state2 = true /\
  matches T_SEND_CONTROL_PACKET L_control = true /\ matches T_SET_AUTO_OFF_SET_PACKET L_auto_off = true /\
  matches T_UPDATE_DEVICE_NAME_PACKET L_set_name = true /\ matches T_GET_SCHEDULES_PACKET L_get_schedules = true /\
  matches T_DELETE_SCHEDULE_PACKET L_delete = true /\ matches T_CREATE_SCHEDULE_PACKET L_create = true /\
  matches T_SCHEDULE_CREATE_DATA_FORMAT L_schedule_record = true /\
  matches T_BREEZE_COMMAND_PACKET L_breeze_command = true /\ matches T_BREEZE_UPDATE_STATUS_PACKET L_breeze_status = true /\
  matches T_RUNNER_STOP_COMMAND L_runner_stop = true /\ matches T_RUNNER_SET_POSITION L_set_position = true.
Proof.
  exact (conj M_login1 (conj M_login2 (conj M_get_state1 (conj M_get_state2 (conj M_control (conj M_auto_off
        (conj M_set_name (conj M_get_schedules (conj M_delete (conj M_create (conj M_record (conj M_breeze_command
        (conj M_breeze_status (conj M_runner_stop M_set_position)))))))))))))).
Qed.
Print Assumptions C02_templates_are_the_layouts_partial.
