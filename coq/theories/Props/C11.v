(* C11 — Clock times survive encoding and decoding in every time zone and on every date *)
Require Import AS.Base.Prelude AS.Base.Hex AS.Base.Dec AS.Model.ScheduleTools AS.Model.ScheduleParser AS.Model.Clock AS.Proofs.ClockProofs.

(* for every zone table: mktime (modelled as a search over the zone's offsets) returns a pre-image whenever the wall-clock time exists *)
Local Open Scope Z_scope.
Theorem C11_mktime_finds z L : (exists t, local_secs z t = L) -> local_secs z (mktime_model z L) = L.
Proof. exact (mktime_finds z L). Qed.
Print Assumptions C11_mktime_finds.
Local Close Scope Z_scope.

(* round trip, every zone table, every instant, every existing minute of today *)
Local Open Scope Z_scope.
Theorem C11_roundtrip z now hm : (hm < 1440)%N ->
  let h := (hm / 60)%N in let m := (hm mod 60)%N in
  let L := 86400 * today z now + Z.of_N (3600 * h + 60 * m) in
  (exists t, local_secs z t = L) ->                       (* the wall-clock time exists today *)
  0 <= mktime_model z L < 4294967296 ->
  exists t, time_to_hexadecimal_timestamp_z false z now (hhmm hm) = Ok (hexlify (le32 (Z.to_N t))) /\
            local_secs z t = L /\
            hexadecimale_timestamp_to_localtime z (hexlify (le32 (Z.to_N t))) = Ok (hhmm hm).
Proof. exact (clock_roundtrip z now hm). Qed.
Print Assumptions C11_roundtrip.
Local Close Scope Z_scope.

