(* C15 — The IR command built is the stored code that best matches the request *)
Require Import AS.Base.Prelude AS.Base.Hex AS.Base.Dec AS.Model.DeviceTools AS.Model.Remotes AS.Spec.IrChoice AS.Proofs.RemotesProofs AS.Proofs.LengthProofs.

(* the pop loop returns the most specific stored prefix of the key list, else its first part *)
Theorem C15_lookup_is_most_specific present key : key <> [] ->
  exists n, lookup_key present key = firstn n key /\ is_choice present key n.
Proof. exact (lookup_key_is_choice present key). Qed.
Print Assumptions C15_lookup_is_most_specific.

(* the payload length field is the little-endian 16-bit byte count *)
Local Open Scope N_scope.
Theorem C15_length_field c : Nat.even (length c) = true -> N.of_nat (length c / 2) < 65536 ->
  breeze_command_length false c = Ok (hexlify (le16 (N.of_nat (length c / 2)))).
Proof. exact (breeze_command_length_ok c). Qed.
Print Assumptions C15_length_field.
Local Close Scope N_scope.

