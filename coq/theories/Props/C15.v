(* C15 — The IR command built is the stored code that best matches the request *)
Require Import AS.Base.Prelude AS.Base.Hex AS.Base.Dec AS.Gen.Extracted AS.Model.DeviceTools AS.Model.Remotes AS.Spec.IrChoice AS.Spec.Remote
  AS.Proofs.RemotesProofs AS.Proofs.LengthProofs AS.Proofs.RemoteSpec.

(* The Spec (Spec/Remote.v), over the list of stored waves, without loops or pops: capabilities = modes with a key starting with
   their code (first appearance order), min / max over keys whose characters 2..4 are digits, toggle = OnOffType 1, separate swing =
   id in the list; the code of a request = the stored wave (a later entry replaces an earlier one) of the most specific key among
   [exact; without swing; without fan level] after clamping the temperature, 'off' for a non-toggle remote switching off, the 'on_'
   prefix only when a toggle remote changes power state, Refused for a mode that is not supported; Silent when none of the three
   keys (or the 'off' code) is stored. *)

(* the remote built from an IR set reports exactly the capabilities present in the set *)
Theorem C15_capabilities s :
  let r := make_remote s in (r_supported r, r_min r, r_max r, r_toggle r, r_sep r) = spec_capabilities s.
Proof. exact (capabilities_are_those_of_the_set s). Qed.
Print Assumptions C15_capabilities.

(* for every IR set and every request: the command and its length field are the Spec's; an unsupported mode is RuntimeError *)
Theorem C15_build_command s on mode target fan swing current :
  match result_of_spec (spec_build s on mode target fan swing current) with
  | Some r' => build_command false (make_remote s) on mode target fan swing current = r'
  | None => True
  end.
Proof. exact (build_command_is_the_spec s on mode target fan swing current). Qed.
Print Assumptions C15_build_command.

(* the pop loop returns the most specific stored prefix of the key list, else its first part *)
Theorem C15_lookup_is_most_specific present key : key <> [] ->
  exists n, lookup_key present key = firstn n key /\ is_choice present key n.
Proof. exact (lookup_key_is_choice present key). Qed.
Print Assumptions C15_lookup_is_most_specific.

(* the payload length field is the little-endian 16-bit byte count *)
Local Open Scope N_scope.
Theorem C15_length_field c : Nat.even (length c) = true -> N.of_nat (length c / 2) < 65536 ->
  breeze_command_length false c = Ok (hexlify (le16 (N.of_nat (length c / 2)))).
Proof. exact (breeze_command_length_ok c). Qed.
Print Assumptions C15_length_field.
