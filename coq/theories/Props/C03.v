(* C03 — Every operation logs in first and binds its commands to that login's session *)
Require Import AS.Base.Prelude AS.Base.Hex AS.Base.Dec AS.Base.Template AS.Base.Exchange AS.Gen.Extracted AS.Model.DeviceTools AS.Model.Messages AS.Model.Remotes AS.Model.Api AS.Proofs.ApiProofs.

(* partial (one operation): for every script of device replies the type-1 state query writes the login frame first, nothing else on an empty login reply, and exactly one command frame otherwise *)
Local Open Scope N_scope.
Theorem C03_get_state_frames_partial c now script : wf_cfg c -> now < 4294967296 -> script_wf script ->
  let '(fs, r) := Exchange.run (get_state c now) script in
  ((exists v, r = Ok v) \/ r = Exc RuntimeError) /\
  (hd [] script = [] -> length fs = 1%nat /\ r = Exc RuntimeError) /\
  (hd [] script <> [] -> length fs = 2%nat).
Proof. exact (get_state_exchange c now script). Qed.
Print Assumptions C03_get_state_frames_partial.
Local Close Scope N_scope.

