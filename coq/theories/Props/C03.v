(* C03 — Every operation logs in first and binds its commands to that login's session *)
Require Import AS.Base.Prelude AS.Base.Hex AS.Base.Template AS.Base.Exchange AS.Gen.Extracted AS.Spec.Frame AS.Spec.FrameLayout
  AS.Spec.FrameSpec AS.Model.DeviceTools AS.Model.Messages AS.Model.Remotes AS.Model.Api AS.Model.Ops
  AS.Proofs.ApiProofs AS.Proofs.SpecOps AS.Proofs.HeaderFields
  AS.Model.Session AS.Spec.Session AS.Proofs.SessionProofs.
Local Open Scope N_scope.

(* 1. Any sequence of operations awaited on one connection (Model/Session.v threads the connection through them: the frames
   written so far and the device's remaining replies), any device script: the frames on the wire and the outcomes are those
   of each operation run ALONE on a fresh connection whose device answers with the replies the earlier operations have not
   consumed - exactly one reply per frame they wrote (Spec/Session.v).  So an operation's frames and outcome are a function of
   the configuration, its own clock reading, its own arguments and its own replies: no session id, clock reading or device
   identity of an earlier operation reaches it.  The proof is the frame rule of the exchange model (Proofs/Uniform.v), proved
   for every operation of both API classes.  That the Python classes behave like this model under sequences and
   interleavings is what the correspondence streams of the check test. *)
Theorem C03_operations_are_independent c ops script :
  run_seq c ops script = (concat (map fst (alone c ops script)), map snd (alone c ops script)).
Proof. exact (sequence_is_operations_alone c ops script). Qed.
Print Assumptions C03_operations_are_independent.

(* 1b. Any number of API objects, each with its own configuration and connection, performing operations in any order
   (Model/Session.v run_world): the connection and the outcomes of object k are those of its own operations, in order, on its
   own connection - whatever the other objects do in between *)
Theorem C03_objects_do_not_interfere cfgs sched w k :
  fst (run_world cfgs sched w) k = fst (seq_ops (cfgs k) (mine k sched) (w k)) /\
  results_of k (snd (run_world cfgs sched w)) = snd (seq_ops (cfgs k) (mine k sched) (w k)).
Proof. exact (objects_do_not_interfere cfgs sched w k). Qed.
Print Assumptions C03_objects_do_not_interfere.

(* 2. Shape of one operation, for every script of device replies: the login frame first; nothing else after an empty
   login reply; exactly one command frame otherwise (type-1 state query; the other operations: theorems of C02, whose
   conclusion gives the exact frame list [login frame; command frame]) *)
Theorem C03_get_state_frames c now script : wf_cfg c -> now < 4294967296 -> script_wf script ->
  let '(fs, r) := Exchange.run (get_state c now) script in
  ((exists v, r = Ok v) \/ r = Exc RuntimeError) /\
  (hd [] script = [] -> length fs = 1%nat /\ r = Exc RuntimeError) /\
  (hd [] script <> [] -> length fs = 2%nat).
Proof. exact (get_state_exchange c now script). Qed.
Print Assumptions C03_get_state_frames.

(* 3. The login frame of the Spec carries a zero session, this operation's timestamp and the credential: the login key
   for type 1 (byte 40), the device id for type 2 (bytes 40-42) *)
Theorem C03_login_frame_type1 keyb now LF : keyb < 256 -> spec_login false [] [keyb] now = Frame LF ->
  pyslice 8 12 LF = [0; 0; 0; 0] /\ pyslice 24 28 LF = le32 now /\ pyslice 40 41 LF = [keyb].
Proof.
  intros Hk H. apply (login_frame_fields 82 T1 [161; 0] [52; 0] [keyb] (zeros 37) now); try reflexivity;
    try (repeat constructor; fail); try exact H; try (apply zeros_b).
  constructor; [exact Hk|constructor].
Qed.
Print Assumptions C03_login_frame_type1.
Theorem C03_login_frame_type2 idb now LF : length idb = 3%nat -> Forall (fun b => b < 256) idb ->
  spec_login true idb [] now = Frame LF ->
  pyslice 8 12 LF = [0; 0; 0; 0] /\ pyslice 24 28 LF = le32 now /\ pyslice 40 43 LF = idb.
Proof.
  intros Hl Hb H.
  destruct (login_frame_fields 48 T2 [166; 0] [255; 3] idb [0] now eq_refl eq_refl eq_refl) with (LF := LF) as [A [B C]];
    try (repeat constructor; fail); try exact Hb; try exact H.
  rewrite Hl in C. auto.
Qed.
Print Assumptions C03_login_frame_type2.

(* 4. Every command frame of the Spec (any layout that starts with the 40-byte header and the device id) carries at
   bytes 8-11 the session bytes it was built from, at 24-27 the timestamp and at 40-42 the device id.  With C02's
   theorems (frames = [login frame; frame_of L (hdr_args (bytes 8-11 of THIS login's reply) now id ++ ...)]) this is:
   commands are bound to the session returned in that very login reply, to this operation's clock reading and to the
   configured device *)
Theorem C03_command_frame_fields len proto cmd sub sess idb now restL args CF :
  length proto = 2%nat -> length cmd = 2%nat -> length sub = 2%nat -> length sess = 4%nat -> length idb = 3%nat ->
  Forall (fun b => b < 256) proto -> Forall (fun b => b < 256) cmd -> Forall (fun b => b < 256) sub ->
  Forall (fun b => b < 256) sess -> Forall (fun b => b < 256) idb ->
  frame_of (header len proto cmd sub ++ SA 2 :: restL) (hdr_args sess now idb ++ args) = Frame CF ->
  pyslice 8 12 CF = sess /\ pyslice 24 28 CF = le32 now /\ pyslice 40 43 CF = idb.
Proof. intros. eapply (frame_fields len proto cmd sub sess idb now restL args); eassumption. Qed.
Print Assumptions C03_command_frame_fields.

(* 5. Thermostat control writes between one and four frames; with nothing actionable or an empty login reply only the
   login frame (C16's theorems); its frames are well formed (C01) *)
