(* demo instance: the control frame is well-formed for all arguments of the right widths *)
Require Import AS.Base.Prelude AS.Base.Hex AS.Base.Template AS.Gen.Extracted AS.Spec.Frame
  AS.Model.DeviceTools AS.Proofs.FrameProofs.

Definition ws_control : list nat := [8; 8; 6; 1; 8]%nat.
Lemma control_cells_ok : c01_cells_ok (sym T_SEND_CONTROL_PACKET ws_control) = true.
Proof. vm_compute. reflexivity. Qed.

Definition hexstr (w : nat) (s : bytes) : Prop := length s = w /\ Forall (fun c => is_hexchar c = true) s.

Lemma U_in_range (t : template) (ws : list nat) (rs : list bytes) :
  (forall i, (i < length ws)%nat -> length (nth i rs []) = nth i ws 0%nat) ->
  (forall p i, In p t -> (p = Hole i \/ p = HoleHex2 i) -> (i < length ws)%nat) ->
  forall i k, In (U i k) (sym t ws) -> (k < length (nth i rs []))%nat.
Proof.
  intros Hlen Hidx i k Hin. unfold sym in Hin. apply in_flat_map in Hin. destruct Hin as [p [Hp Hin]].
  destruct p as [s|j|j]; cbn [sym_piece] in Hin.
  - apply in_map_iff in Hin. destruct Hin as [x [Hx _]]. discriminate.
  - apply in_map_iff in Hin. destruct Hin as [x [Hx Hs]]. inversion Hx; subst. apply in_seq in Hs.
    rewrite Hlen by (apply (Hidx (Hole i)); auto). lia.
  - apply in_map_iff in Hin. destruct Hin as [x [Hx Hs]]. inversion Hx; subst. apply in_seq in Hs.
    rewrite Hlen by (apply (Hidx (HoleHex2 i)); auto). lia.
Qed.

Theorem control_frame_wellformed : forall sess ts devid cmd timer,
  hexstr 8 sess -> hexstr 8 ts -> hexstr 6 devid -> hexstr 1 cmd -> hexstr 8 timer ->
  exists p out bs,
    format T_SEND_CONTROL_PACKET [AStr sess; AStr ts; AStr devid; AStr cmd; AStr timer] = Ok p /\
    sign_packet_with_crc_key p = Ok out /\ unhexlify out = Some bs /\ frame_okb bs = true.
Proof.
  intros sess ts devid cmd timer [L1 H1] [L2 H2] [L3 H3] [L4 H4] [L5 H5].
  set (rs := [sess; ts; devid; cmd; timer]).
  assert (Hf : format T_SEND_CONTROL_PACKET [AStr sess; AStr ts; AStr devid; AStr cmd; AStr timer]
               = Ok (map (denote rs) (sym T_SEND_CONTROL_PACKET ws_control))).
  { apply sym_sound.
    - intros p Hp. unfold T_SEND_CONTROL_PACKET in Hp. cbn [In] in Hp.
      repeat (destruct Hp as [<-|Hp]; [try exact I; eexists; split; reflexivity|]). destruct Hp.
    - intros p i Hp Hi. unfold T_SEND_CONTROL_PACKET in Hp. cbn [In] in Hp.
      repeat (destruct Hp as [<-|Hp]; [destruct Hi as [Hi|Hi]; inversion Hi; subst; cbn; assumption|]). destruct Hp. }
  destruct (c01_sound (sym T_SEND_CONTROL_PACKET ws_control) rs control_cells_ok) as [out [bs [Hs [Hu Hk]]]].
  - unfold args_hex, rs. repeat constructor; assumption.
  - apply U_in_range.
    + intros i Hi. unfold ws_control in *. cbn in Hi.
      do 5 (destruct i as [|i]; [cbn; assumption|]). lia.
    + intros p i Hp Hi. unfold T_SEND_CONTROL_PACKET in Hp. cbn [In] in Hp.
      repeat (destruct Hp as [<-|Hp]; [destruct Hi as [Hi|Hi]; inversion Hi; subst; cbn; lia|]). destruct Hp.
  - eexists _, out, bs. split; [exact Hf|]. split; [exact Hs|]. split; assumption.
Qed.
Print Assumptions control_frame_wellformed.
