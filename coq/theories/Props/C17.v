(* C17 — The bridge listens exactly while running and leaves nothing behind *)
Require Import AS.Base.Prelude AS.Model.Lifecycle AS.Proofs.LifecycleProofs.

(* for all action sequences and all port lists *)
Theorem C17_lifecycle ports acts : let s := run false ports acts in
  (running s = true -> forall p, In p ports -> os s p = Bridge) /\
  (running s = false -> forall p, os s p <> Bridge) /\
  (forall p, snd (step false ports s (ASend p)) = ODelivered <-> (running s = true /\ In p ports)).
Proof. exact (C17_model ports acts). Qed.
Print Assumptions C17_lifecycle.

