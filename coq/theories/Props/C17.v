(* C17 — The bridge listens exactly while running and leaves nothing behind *)
Require Import AS.Base.Prelude AS.Model.Lifecycle AS.Proofs.LifecycleProofs AS.Model.MultiBridge AS.Proofs.MultiBridgeProofs.

(* for all action sequences and all port lists *)
Theorem C17_lifecycle ports acts : let s := run false ports acts in
  (running s = true -> forall p, In p ports -> os s p = Bridge) /\
  (running s = false -> forall p, os s p <> Bridge) /\
  (forall p, snd (step false ports s (ASend p)) = ODelivered <-> (running s = true /\ In p ports)).
Proof. exact (C17_model ports acts). Qed.
Print Assumptions C17_lifecycle.


(* any number of bridge objects in one process, each with its own port list [cfg i] (Model/MultiBridge.v), after any history of
   start / stop of any object and foreign sockets coming and going: every object is running exactly while it holds all of its ports,
   holds none otherwise, and receives a broadcast exactly when it is running on that port *)
Theorem C17_every_object cfg acts i : let s := mrun cfg acts in
  (rflag s i = true -> forall p, In p (cfg i) -> held s i p) /\
  (rflag s i = false -> forall p, ~ held s i p) /\
  (forall p, delivered_to s p i = true <-> (rflag s i = true /\ In p (cfg i))).
Proof. exact (C17_objects cfg acts i). Qed.
Print Assumptions C17_every_object.

(* what is done with other objects (start, failed start, stop, repeated stop) or by foreign sockets leaves an object as it was *)
Theorem C17_objects_are_independent cfg acts a i : ~ names a i ->
  let s := mrun cfg acts in
  rflag (mstep cfg s a) i = rflag s i /\ forall q, held (mstep cfg s a) i q <-> held s i q.
Proof. exact (C17_objects_do_not_interfere cfg acts a i). Qed.
Print Assumptions C17_objects_are_independent.

(* the premises are met by real histories: object 0 running on ports 1 and 2 while object 1 (same ports) is stopped twice and
   object 2 fails to start on port 2 *)
Example C17_objects_example :
  let s := mrun (fun _ => [1; 2]%nat) [MStart 0; MStop 1; MStart 2; MStop 1] in
  rflag s 0 = true /\ rflag s 2 = false /\ m_os s 1%nat = MBridge 0 /\ m_os s 2%nat = MBridge 0.
Proof. vm_compute. repeat split. Qed.

(* the same as a refinement of the property's own reading of a history (Spec/BridgeHistory.v: two facts are remembered, "running"
   and "which ports a foreign socket holds").  For every duplicate-free, non-empty port list and every action sequence the model's
   observations (started / raised / delivered / dropped), its flag and its OS table are exactly those of the history reading:
   start raises and changes nothing when the bridge runs already or a configured port is taken, otherwise the bridge runs and
   holds every configured port; stop always ends in "not running, every port given back", repeated or before any start; a
   stopped bridge starts again; a datagram is delivered exactly while running, on a configured port *)
Require Import AS.Spec.BridgeHistory AS.Proofs.BridgeRefine.
Theorem C17_refines_history ports acts : NoDup ports -> ports <> [] ->
  let s := run false ports acts in let a := fst (a_trace ports a_init acts) in
  snd (c_trace ports init acts) = snd (a_trace ports a_init acts) /\
  running s = a_run a /\ forall q, os s q = a_owner ports a q.
Proof. exact (bridge_refines_history ports acts). Qed.
Print Assumptions C17_refines_history.

(* the reading at work: port 2 taken -> start raises, nothing held; released -> start succeeds, both ports held, a second start
   raises and changes nothing; stop twice; start again *)
Example C17_history_example :
  let acts := [AOccupy 2; AStart; ASend 1; ARelease 2; AStart; AStart; ASend 1; AStop; AStop; ASend 1; AStart]%nat in
  snd (a_trace [1; 2]%nat a_init acts) = [ONone; ORaised; ODropped; ONone; OStarted; ORaised; ODelivered; ONone; ONone; ODropped; OStarted] /\
  a_run (fst (a_trace [1; 2]%nat a_init acts)) = true /\
  snd (c_trace [1; 2]%nat init acts) = snd (a_trace [1; 2]%nat a_init acts).
Proof. split; [vm_compute; reflexivity|]. split; [vm_compute; reflexivity|]. apply C17_refines_history; [repeat constructor; cbn; intuition lia|discriminate]. Qed.
