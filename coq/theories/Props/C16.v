(* C16 — Thermostat control changes only what was asked *)
Require Import AS.Base.Prelude AS.Base.Hex AS.Base.Dec AS.Base.Template AS.Base.Exchange AS.Gen.Extracted AS.Model.DeviceTools AS.Model.Messages AS.Model.Remotes AS.Model.Api AS.Proofs.ApiProofs AS.Proofs.LengthProofs
  AS.Base.Utf8 AS.Spec.Sign AS.Spec.Frame AS.Spec.FrameLayout AS.Spec.Encoders AS.Spec.FrameSpec AS.Spec.IrChoice AS.Spec.Remote
  AS.Proofs.SpecOps AS.Proofs.RemoteSpec AS.Proofs.BreezeExact AS.Proofs.BreezeReplies.

(* nothing actionable: RuntimeError after the login frame only, whatever the device answers *)
Local Open Scope N_scope.
Theorem C16_nothing_actionable lg c now r swing update script :
  wf_cfg c -> now < 4294967296 ->
  (swing = None \/ (r_sep r = true /\ update = true)) ->
  let '(fs, res) := Exchange.run (control_breeze_device lg c now r None None 0%Z None swing update) script in
  length fs = 1%nat /\ res = Exc RuntimeError.
Proof. exact (breeze_nothing_actionable lg c now r swing update script). Qed.
Print Assumptions C16_nothing_actionable.
Local Close Scope N_scope.

(* empty login reply: RuntimeError, no further frame *)
Local Open Scope N_scope.
Theorem C16_empty_login lg c now r state mode target fan swing update script :
  wf_cfg c -> now < 4294967296 -> hd [] script = [] ->
  let '(fs, res) := Exchange.run (control_breeze_device lg c now r state mode target fan swing update) script in
  length fs = 1%nat /\ res = Exc RuntimeError.
Proof. exact (breeze_empty_login lg c now r state mode target fan swing update script). Qed.
Print Assumptions C16_empty_login.
Local Close Scope N_scope.

(* the frame length written by set_message_length is the final length *)
Local Open Scope N_scope.
Theorem C16_frame_length m b : unhexlify m = Some b -> (8 <= length m)%nat ->
  N.of_nat (length b + 4) < 65536 ->
  set_message_length false m = Ok (s2l "fef0" ++ hexlify (le16 (N.of_nat (length b + 4))) ++ skipn 8 m) /\
  length (s2l "fef0" ++ hexlify (le16 (N.of_nat (length b + 4))) ++ skipn 8 m) = length m.
Proof. exact (set_message_length_ok m b). Qed.
Print Assumptions C16_frame_length.
Local Close Scope N_scope.


(* ---- the exact exchange, for every request and every reported state ----
   In all four theorems the device is (idb, keyb), the clock reads [now], the login reply r0 carries a session id, the state
   reply sr parses to [cur] and the later replies are non-empty.  The merged value of each field is the requested one, else
   the one the device just reported ([cur]); nothing else of the request or of [cur] reaches the frames. *)
Local Open Scope N_scope.
Section Exact.
Variables (idb : bytes) (keyb now : N) (r0 sr r2 : bytes).
Hypothesis Lid : length idb = 3%nat.
Hypothesis Hid : Forall (fun b => b < 256) idb.
Hypothesis Hkey : keyb < 256.
Hypothesis Hnow : now < 4294967296.
Hypothesis Hr0 : Forall (fun b => b < 256) r0.
Hypothesis Lr0 : (12 <= length r0)%nat.
Hypothesis Hsr : sr <> [].
Hypothesis Hr2 : r2 <> [].
Variables (state : option bool) (mode : option string) (target : Z) (fan : option string) (swing : option bool).
Variable cur : thermostat_fields.
Hypothesis Hparse : parse_thermostat_reply sr = Ok cur.
Let c := cfg_of idb keyb.
Let h := hdr_args (pyslice 8 12 r0) now idb.
Let m_on := or_else state (tf_on cur).
Let m_mode := or_else mode (tf_mode cur).
Let m_target := if (target =? 0)%Z then Z.of_N (tf_target cur) else target.
Let m_fan := or_else fan (tf_fan cur).

(* update_state: exactly login, state query, and the status frame of the merged values (swing never for a separate-swing remote) *)
Theorem C16_update_exact (r : remote) rest mbyte fnib mv fv dm df :
  (is_some state || is_some mode || negb (target =? 0)%Z || is_some fan || (is_some swing && negb (r_sep r)))%bool = true ->
  let m_swing := if r_sep r then false else or_else swing (tf_swing_on cur) in
  In (m_mode, mv, dm) thermostat_modes -> hexlify [mbyte] = s2l mv -> mbyte < 256 ->
  In (m_fan, fv, df) fan_levels -> [hexdigit fnib] = s2l fv -> fnib < 16 ->
  Z.to_N m_target < 256 ->
  exists LF GS ST, spec_login true idb [keyb] now = Frame LF /\ frame_of L_get_state2 h = Frame GS /\
    spec_breeze_status h m_on mbyte (Z.to_N m_target) fnib m_swing = Frame ST /\
    Exchange.run (control_breeze_device false c now r state mode target fan swing true) (r0 :: sr :: r2 :: rest) = ([LF; GS; ST], Ok r2).
Proof.
  exact (breeze_update_exact idb keyb now r0 sr r2 Lid Hid Hkey Hnow Hr0 Lr0 Hsr Hr2 state mode target fan swing cur Hparse
           r rest mbyte fnib mv fv dm df).
Qed.

(* IR: exactly login, state query, and the command the Spec of C15 chooses for the merged values *)
Theorem C16_ir_exact (s : irset) rest text :
  let r := make_remote s in
  (is_some state || is_some mode || negb (target =? 0)%Z || is_some fan || (is_some swing && negb (r_sep r)))%bool = true ->
  (r_sep r && is_some swing)%bool = false ->
  let m_swing := if r_sep r then false else or_else swing (tf_swing_on cur) in
  spec_build s m_on m_mode m_target m_fan m_swing (Some (tf_on cur)) = Code text ->
  Forall (fun b => b < 256) text -> N.of_nat (length text) < 65000 ->
  exists LF GS IR, spec_login true idb [keyb] now = Frame LF /\ frame_of L_get_state2 h = Frame GS /\
    spec_breeze_command h text = Frame IR /\
    Exchange.run (control_breeze_device false c now r state mode target fan swing false) (r0 :: sr :: r2 :: rest) = ([LF; GS; IR], Ok r2).
Proof.
  exact (breeze_ir_exact idb keyb now r0 sr r2 Lid Hid Hkey Hnow Hr0 Lr0 Hsr Hr2 state mode target fan swing cur Hparse s rest text).
Qed.

(* IR with a separate swing button: the main command is built without swing and a fourth frame carries the swing command *)
Theorem C16_ir_swing_exact (s : irset) r3 rest text sw text2 :
  let r := make_remote s in
  r_sep r = true -> swing = Some sw ->
  (is_some state || is_some mode || negb (target =? 0)%Z || is_some fan)%bool = true ->
  spec_build s m_on m_mode m_target m_fan false (Some (tf_on cur)) = Code text ->
  Forall (fun b => b < 256) text -> N.of_nat (length text) < 65000 ->
  spec_swing s sw = Code text2 ->
  Forall (fun b => b < 256) text2 -> N.of_nat (length text2) < 65000 ->
  exists LF GS IR SW, spec_login true idb [keyb] now = Frame LF /\ frame_of L_get_state2 h = Frame GS /\
    spec_breeze_command h text = Frame IR /\ spec_breeze_command h text2 = Frame SW /\
    Exchange.run (control_breeze_device false c now r state mode target fan swing false) (r0 :: sr :: r2 :: r3 :: rest)
      = ([LF; GS; IR; SW], Ok r3).
Proof.
  exact (breeze_ir_swing_exact idb keyb now r0 sr r2 Lid Hid Hkey Hnow Hr0 Lr0 Hsr Hr2 state mode target fan swing cur Hparse
           s r3 rest text sw text2).
Qed.
End Exact.
Print Assumptions C16_update_exact.
Print Assumptions C16_ir_exact.
Print Assumptions C16_ir_swing_exact.

(* only the swing of a separate-swing remote: no state query, no main command, one swing frame *)
Theorem C16_swing_only_exact idb keyb now r0 r1 rest (s : irset) sw text2 :
  length idb = 3%nat -> Forall (fun b => b < 256) idb -> keyb < 256 -> now < 4294967296 ->
  Forall (fun b => b < 256) r0 -> (12 <= length r0)%nat ->
  let r := make_remote s in
  r_sep r = true -> spec_swing s sw = Code text2 ->
  Forall (fun b => b < 256) text2 -> N.of_nat (length text2) < 65000 ->
  exists LF SW, spec_login true idb [keyb] now = Frame LF /\
    spec_breeze_command (hdr_args (pyslice 8 12 r0) now idb) text2 = Frame SW /\
    Exchange.run (control_breeze_device false (cfg_of idb keyb) now r None None 0%Z None (Some sw) false) (r0 :: r1 :: rest)
      = ([LF; SW], Ok r1).
Proof.
  intros Lid Hid Hkey Hnow Hr0 Lr0. exact (breeze_swing_only_exact idb keyb now r0 r1 rest Lid Hid Hkey Hnow Hr0 Lr0 s sw text2).
Qed.
Print Assumptions C16_swing_only_exact.
Local Close Scope N_scope.

(* it never reports success on an empty reply.  For every configuration, remote, request, flag and reply script (no premise at all): if
   the call returns a non-empty response, then every reply it read - one per frame written, in order - was non-empty, and the response
   is the reply to the last frame.  (Contrapositive: an empty reply at any step gives an exception or an empty, i.e. unsuccessful,
   response.) *)
Theorem C16_success_means_every_reply lg c now r state mode target fan swing update script fs resp :
  Exchange.run (control_breeze_device lg c now r state mode target fan swing update) script = (fs, Ok resp) ->
  resp <> [] ->
  (length fs <= length script)%nat /\ Forall (fun x => x <> []) (firstn (length fs) script) /\
  nth_error script (length fs - 1) = Some resp.
Proof. exact (breeze_success_means_every_reply lg c now r state mode target fan swing update script fs resp). Qed.
Print Assumptions C16_success_means_every_reply.
