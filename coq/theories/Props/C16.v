(* C16 — Thermostat control changes only what was asked *)
Require Import AS.Base.Prelude AS.Base.Hex AS.Base.Dec AS.Base.Template AS.Base.Exchange AS.Gen.Extracted AS.Model.DeviceTools AS.Model.Messages AS.Model.Remotes AS.Model.Api AS.Proofs.ApiProofs AS.Proofs.LengthProofs.

(* nothing actionable: RuntimeError after the login frame only, whatever the device answers *)
Local Open Scope N_scope.
Theorem C16_nothing_actionable lg c now r swing update script :
  wf_cfg c -> now < 4294967296 ->
  (swing = None \/ (r_sep r = true /\ update = true)) ->
  let '(fs, res) := Exchange.run (control_breeze_device lg c now r None None 0%Z None swing update) script in
  length fs = 1%nat /\ res = Exc RuntimeError.
Proof. exact (breeze_nothing_actionable lg c now r swing update script). Qed.
Print Assumptions C16_nothing_actionable.
Local Close Scope N_scope.

(* empty login reply: RuntimeError, no further frame *)
Local Open Scope N_scope.
Theorem C16_empty_login lg c now r state mode target fan swing update script :
  wf_cfg c -> now < 4294967296 -> hd [] script = [] ->
  let '(fs, res) := Exchange.run (control_breeze_device lg c now r state mode target fan swing update) script in
  length fs = 1%nat /\ res = Exc RuntimeError.
Proof. exact (breeze_empty_login lg c now r state mode target fan swing update script). Qed.
Print Assumptions C16_empty_login.
Local Close Scope N_scope.

(* the frame length written by set_message_length is the final length *)
Local Open Scope N_scope.
Theorem C16_frame_length m b : unhexlify m = Some b -> (8 <= length m)%nat ->
  N.of_nat (length b + 4) < 65536 ->
  set_message_length false m = Ok (s2l "fef0" ++ hexlify (le16 (N.of_nat (length b + 4))) ++ skipn 8 m) /\
  length (s2l "fef0" ++ hexlify (le16 (N.of_nat (length b + 4))) ++ skipn 8 m) = length m.
Proof. exact (set_message_length_ok m b). Qed.
Print Assumptions C16_frame_length.
Local Close Scope N_scope.

