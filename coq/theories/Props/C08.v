(* C08 — State replies are decoded into exactly what the device reported *)
Require Import AS.Base.Prelude AS.Base.Hex AS.Base.Dec AS.Base.Utf8 AS.Gen.Extracted AS.Model.Messages AS.Spec.Encoders
  AS.Proofs.MessagesProofs AS.Proofs.RepliesProofs AS.Proofs.FloatProofs AS.Base.Float.
Local Open Scope N_scope.

(* parse o encode = identity, for all field values and all filler bytes, for each reply kind *)
Theorem C08_type1_state_reply f0 f1 f2 f3 st pw tl ton au :
  length f0 = 75%nat -> length f1 = 1%nat -> length f2 = 8%nat ->
  (st = 0 \/ st = 1) -> pw < 65536 -> tl < 86400 -> ton < 86400 -> au < 86400 ->
  parse_state_reply (encode_state_reply f0 f1 f2 f3 st pw tl ton au) =
  Ok {| sf_state := st; sf_time_left := fmt_hhmmss tl; sf_time_on := fmt_hhmmss ton;
        sf_auto := fmt_hhmmss au; sf_power := pw |}.
Proof. exact (state_reply_roundtrip f0 f1 f2 f3 st pw tl ton au). Qed.
Print Assumptions C08_type1_state_reply.

Theorem C08_shutter_reply f0 f1 f2 pos dname dvalue ddisp :
  length f0 = 76%nat -> length f1 = 1%nat -> pos < 256 -> In (dname, dvalue, ddisp) shutter_directions ->
  parse_shutter_reply (encode_shutter_reply f0 f1 f2 pos (unhex_str dvalue)) =
  Ok {| sh_position := pos; sh_direction := dname |}.
Proof. exact (shutter_reply_roundtrip f0 f1 f2 pos dname dvalue ddisp). Qed.
Print Assumptions C08_shutter_reply.

Theorem C08_thermostat_reply f0 f1 f2 temp10 (on : bool) mname mvalue mdisp target fname fvalue fdisp fan (swing : bool) remote :
  length f0 = 76%nat -> length f1 = 2%nat -> temp10 < 65536 -> target < 256 -> fan < 16 ->
  In (mname, mvalue, mdisp) thermostat_modes -> In (fname, fvalue, fdisp) fan_levels -> [hexdigit fan] = s2l fvalue ->
  (length remote <= 8)%nat -> utf8_valid remote = true -> last remote 1 <> 0 ->
  parse_thermostat_reply
    (encode_thermostat_reply f0 f1 f2 temp10 (if on then 1 else 0) (match unhex_str mvalue with [m] => m | _ => 0 end) target
       (16 * fan + (if swing then 1 else 0)) (pad0 8 remote)) =
  Ok {| tf_on := on; tf_mode := mname; tf_fan := fname; tf_temp10 := temp10; tf_target := target;
        tf_swing_on := swing; tf_remote := remote |}.
Proof. exact (thermostat_reply_roundtrip f0 f1 f2 temp10 on mname mvalue mdisp target fname fvalue fdisp fan swing remote). Qed.
Print Assumptions C08_thermostat_reply.

Theorem C08_login_reply f0 session f1 : length f0 = 8%nat -> length session = 4%nat ->
  login_session (encode_login_reply f0 session f1) = hexlify session.
Proof. exact (login_reply_session f0 session f1). Qed.
Print Assumptions C08_login_reply.

(* amps = watts / 220 to one decimal, for every 16-bit wattage (bit-exact float model) *)
Theorem C08_amps w : (w < 65536)%N -> (Z.abs (Z.of_N w - 22 * amps_tenths (Z.of_N w)) <= 11)%Z.
Proof. exact (amps_ok w). Qed.
Print Assumptions C08_amps.
