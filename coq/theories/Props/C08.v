(* C08 — State replies are decoded into exactly what the device reported *)
Require Import AS.Base.Prelude AS.Base.Hex AS.Base.Dec AS.Model.Messages AS.Spec.Encoders AS.Proofs.MessagesProofs.

(* partial (type-1 state reply): parse o encode = identity for all field values and all filler *)
Local Open Scope N_scope.
Theorem C08_state_reply_roundtrip_partial f0 f1 f2 f3 st pw tl ton au :
  length f0 = 75%nat -> length f1 = 1%nat -> length f2 = 8%nat ->
  (st = 0 \/ st = 1) -> pw < 65536 -> tl < 86400 -> ton < 86400 -> au < 86400 ->
  parse_state_reply (encode_state_reply f0 f1 f2 f3 st pw tl ton au) =
  Ok {| sf_state := st; sf_time_left := fmt_hhmmss tl; sf_time_on := fmt_hhmmss ton;
        sf_auto := fmt_hhmmss au; sf_power := pw |}.
Proof. exact (state_reply_roundtrip f0 f1 f2 f3 st pw tl ton au). Qed.
Print Assumptions C08_state_reply_roundtrip_partial.
Local Close Scope N_scope.

