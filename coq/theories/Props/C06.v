(* C06 — Only genuine Switcher broadcasts are accepted; anything else is ignored quietly *)
Require Import AS.Base.Prelude AS.Base.Hex AS.Base.Dec AS.Gen.Extracted AS.Model.Bridge AS.Proofs.BridgeProofs.

(* the gate, for every byte string *)
Local Open Scope N_scope.
Theorem C06_gate m : wf_bytes m ->
  (is_switcher_originator m = true <->
   firstn 2 m = [254; 240] /\ (length m = 165 \/ length m = 168 \/ length m = 159)%nat).
Proof. exact (originator_iff m). Qed.
Print Assumptions C06_gate.
Local Close Scope N_scope.

(* whatever fails the gate is ignored: no device, no warning, no exception *)
Local Open Scope N_scope.
Theorem C06_ignored lm lt m : is_switcher_originator m = false -> parse_datagram lm lt m = Ignored.
Proof. exact (not_originator_ignored lm lt m). Qed.
Print Assumptions C06_ignored.
Local Close Scope N_scope.

(* an accepted frame with an unknown model code: a warning, no device, no exception *)
Local Open Scope N_scope.
Theorem C06_unknown_model lm m : wf_bytes m -> is_switcher_originator m = true ->
  dt_by_hex (hexlify (pyslice 74 76 m)) = None -> parse_datagram lm false m = Warned.
Proof. exact (unknown_model_warned lm m). Qed.
Print Assumptions C06_unknown_model.
Local Close Scope N_scope.

