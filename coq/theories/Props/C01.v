(* C01 — Every frame written to a device is self-consistent and correctly signed *)
Require Import AS.Base.Prelude AS.Base.Hex AS.Base.Template AS.Base.Exchange AS.Gen.Extracted AS.Spec.Frame
  AS.Model.DeviceTools AS.Model.Remotes AS.Model.ScheduleTools AS.Model.Api AS.Model.Ops
  AS.Proofs.FrameProofs AS.Proofs.FrameAll AS.Proofs.OpsFrames.
Local Open Scope N_scope.

(* For every operation of both APIs (Model/Ops.v: the 12 kinds, thermostat control with its state query, status frame,
   IR frame and separate swing frame), every configuration with a 6-hex-digit id and 2-hex-digit key, every clock
   reading, every accepted argument and every script of device replies whose login reply has at least 12 bytes:
   every byte string the operation writes satisfies the Spec's frame predicate (Spec/Frame.v: magic, LE16 of its own
   length, terminator, trailing double-CRC signature).  Rejected arguments, odd-nibbled or over-long texts write
   nothing beyond the login frame, which is covered by the same statement. *)
Theorem C01_every_written_frame_is_well_formed : forall c now o script,
  wf_cfg c -> accepted o -> wfs script -> (12 <= length (hd [] script))%nat ->
  Forall (fun f => frame_okb f = true) (fst (Exchange.run (run_op c now o) script)).
Proof. exact all_operations_frames. Qed.
Print Assumptions C01_every_written_frame_is_well_formed.

(* the building blocks, for every input *)
Theorem C01_length_rewrite : forall m b, unhexlify m = Some b -> (8 <= length m)%nat -> N.of_nat (length b + 4) < 65536 ->
  set_message_length false m = Ok (s2l "fef0" ++ hexlify (le16 (N.of_nat (length b + 4))) ++ skipn 8 m) /\
  length (s2l "fef0" ++ hexlify (le16 (N.of_nat (length b + 4))) ++ skipn 8 m) = length m.
Proof. exact AS.Proofs.LengthProofs.set_message_length_ok. Qed.
Print Assumptions C01_length_rewrite.

(* non-vacuity: a concrete exchange meets the premises and writes two frames *)
Example C01_example :
  let c := {| device_id := s2l "ab1c2d"; device_key := s2l "18" |} in
  let script := [repeat 7 24; [1]] in
  wf_cfg c /\ length (fst (Exchange.run (run_op c 1700000000 (OControl true 15)) script)) = 2%nat /\ wfs script /\ (12 <= length (hd [] script))%nat.
Proof.
  split; [constructor; try reflexivity; apply Forall_forall; apply forallb_forall; vm_compute; reflexivity|].
  split; [vm_compute; reflexivity|]. split; [|vm_compute; lia].
  assert (H : forallb (forallb (fun b => b <? 256)) [repeat 7 24; [1]] = true) by (vm_compute; reflexivity).
  apply Forall_forall; intros r Hr; apply Forall_forall; intros b Hb.
  rewrite forallb_forall in H. specialize (H r Hr). rewrite forallb_forall in H. apply N.ltb_lt, H, Hb.
Qed.
