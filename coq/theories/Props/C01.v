(* C01 — Every frame written to a device is self-consistent and correctly signed *)
Require Import AS.Base.Prelude AS.Base.Hex AS.Base.Template AS.Gen.Extracted AS.Spec.Frame
  AS.Model.DeviceTools AS.Proofs.FrameProofs AS.Props.C01_demo.

(* partial: the control frame only; the remaining operations are added as they are proved *)
Theorem C01_control_frame_partial : forall sess ts devid cmd timer,
  hexstr 8 sess -> hexstr 8 ts -> hexstr 6 devid -> hexstr 1 cmd -> hexstr 8 timer ->
  exists p out bs,
    format T_SEND_CONTROL_PACKET [AStr sess; AStr ts; AStr devid; AStr cmd; AStr timer] = Ok p /\
    sign_packet_with_crc_key p = Ok out /\ unhexlify out = Some bs /\ frame_okb bs = true.
Proof. exact control_frame_wellformed. Qed.
Print Assumptions C01_control_frame_partial.
