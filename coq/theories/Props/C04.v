(* C04 — The signature is the protocol's double CRC-16 for every byte string *)
Require Import AS.Base.Prelude AS.Base.Hex AS.Base.Crc AS.Model.DeviceTools AS.Spec.Sign AS.Proofs.SignProofs.

Theorem C04_sign : forall p bs, unhexlify p = Some bs ->
  sign_packet_with_crc_key p = Ok (p ++ hexlify (sig bs)).
Proof. exact sign_spec. Qed.
Print Assumptions C04_sign.

Theorem C04_reject : forall p, unhexlify p = None ->
  exists e, sign_packet_with_crc_key p = Exc e /\ is_value_error e = true.
Proof. exact sign_reject. Qed.
Print Assumptions C04_reject.

Theorem C04_crc_is_bit_serial : forall bs init, (init < 65536)%N -> Forall (fun b => (b < 256)%N) bs ->
  crc_hqx bs init = crc_spec init bs.
Proof. exact crc_hqx_eq_spec. Qed.
Print Assumptions C04_crc_is_bit_serial.

(* non-vacuity: the login frame pinned by tests/test_api_packet_crc_signing.py *)
Example C04_example :
  sign_packet_with_crc_key (s2l "fef0") = Ok (s2l "fef0e1e84af5").
Proof. vm_compute. reflexivity. Qed.
