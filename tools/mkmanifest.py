"""Writes /verif/MANIFEST.json from one table (kept here so that level texts stay next to each other)."""
import json, os
ROOT = os.path.dirname(os.path.dirname(os.path.abspath(__file__)))
COMMON_NOTE = ("Trusted: Coq 8.16.1 kernel (vm_compute used, native_compute not); no axioms declared, Print Assumptions of every property "
               "theorem is read on each run (closed, or kernel int/float primitives for the amps lemma); the translator "
               "harness/extract_consts.py (constants regenerated from /repo on every run); extraction (ExtrOcamlBasic, ExtrOCamlInt63, "
               "ExtrOCamlFloats; no hand-written directive) + ocaml/driver.ml; the hand-written models of function bodies are tied to the "
               "code by the correspondence streams of each run, not verified. ")
TECH = "Coq theorem over a Gallina model + model/implementation correspondence (extracted OCaml) + Spec oracle on implementation output"
P = {
 "C01": ("proof", "Theorem C01_every_written_frame_is_well_formed (kernel-checked, no bound): for all 12 operations of both APIs (thermostat control with its state query, status frame, IR frame and separate swing frame included), every configuration, clock reading, accepted argument and reply script whose login reply has 12 bytes, every byte string the exchange model writes satisfies the Spec's frame predicate (magic, LE16 of its own length, terminator, double-CRC signature); proved with a Hoare logic over the exchange monad and one reflection fact per regenerated packet template. Each run compares the frames the real client writes (in-process and over loopback TCP) with the model and evaluates the extracted frame predicate on every one of them.", "5 C01 / 12.2",
         'the API wiring (which template, argument order, where set_message_length is applied) is modelled by hand and tied by correspondence'),
 "C02": ("proof", "Theorems C02_<operation> for control_device, set_auto_shutdown, set_device_name, get_schedules, delete_schedule, create_schedule, stop and set_position: the exact frame list of the exchange model is [Spec login frame; Spec command frame], where the Spec frame renders an independently written byte layout with the declared meaning of the arguments (60 x minutes, whole minutes in 1h..23h59m, UTF-8 padded to 32 bytes, slot, position), and rejected arguments leave the login frame alone; generic theorem: whatever a call site writes is the layout's frame; all 15 templates equal their layouts. Each run compares the real command frame byte by byte with the extracted Spec on boundary and random arguments.", "5 C02 / 12.2",
         'create_schedule is stated relative to today\'s local midnight (the zone part is C11\'s theorem); the thermostat frames are C16\'s theorems'),
 "C03": ("proof", "Theorems: any sequence of operations on one connection, for any device script, writes exactly the frames and has exactly the outcomes of each operation run alone on the replies its predecessors left, one reply consumed per frame (C03_operations_are_independent, from the frame rule of the exchange model proved for all 12 operations, Proofs/Uniform.v); any number of API objects in any order: each object's connection and outcomes are those of its own operations (C03_objects_do_not_interfere); the Spec login frame carries a zero session, the timestamp and the key (type 1) / device id (type 2); every Spec command frame carries at bytes 8-11 / 24-27 / 40-42 the session of this login's reply, this operation's timestamp and the device id; with C02's exact frame lists this fixes number, order and binding of frames. Each run drives single operations, sequences on one object (per-operation scripts, and one device script for a whole sequence compared with the extracted sequence model and its Spec reading), two interleaved objects (incl. the four-frame thermostat flow) and judges every frame with the extracted shape checker.", "5 C03 / 12.2",
         'partial: that the Python classes keep no hidden state and how asyncio interleaves coroutines is tested by correspondence, not modelled'),
 "C04": ("proof", "Theorems for every hex string: sign(p) = p ++ hex(double CRC) with the bit-serial CRC-16/CCITT as Spec, table-driven "
         "crc_hqx proved equal to it, rejection of non-hex input; per run the extracted model and Spec are compared with "
         "sign_packet_with_crc_key and binascii.crc_hqx.", "5 C04", "crc_hqx of CPython is modelled by its table-driven algorithm"),
 "C05": ("proof", 'Theorems: parse(encode(description)) = description for the water heaters and the power plug (165 bytes, OFF normalisation), Runner / Runner Mini (159 bytes, MAC at 81-86) and the thermostat (168 bytes), for every field value and every filler byte; amps lemma for all 65536 wattages on a bit-exact float model. Each run feeds Spec-encoded descriptions of all 9 types to the real parser directly and through a running bridge (with byte-identical repeats) and compares every field.', "5 C05 / 12.2",
         'the broadcast layouts transcribe the pinned commit and the shipped captures; kernel float primitives for amps'),
 "C06": ("proof", "Theorems for every byte string: the gate is exactly magic + three lengths, anything else is Ignored, an accepted frame "
         "with an unknown model code is Warned; per run every length 0..400, mutated captures and model codes are fed to the real parser "
         "and a running bridge observing callbacks, warnings and the loop exception handler.", "5 C06", ""),
 "C07": ("proof", "Theorem over all event sequences, ports and raising patterns of the dispatch model: the callback log is exactly the "
         "valid broadcasts once each in order, per port, independent of everything else; per run sequences are sent to a real bridge "
         "over loopback UDP with raising callbacks.", "5 C07", "partial: event-loop isolation of callback exceptions and UDP FIFO are runtime facts exercised, not modelled"),
 "C08": ("proof", 'Theorems: parse(encode(fields)) = fields for the type-1 state reply, the shutter reply, the thermostat reply and the login reply, for all field values and filler; amps lemma. Each run feeds Spec-encoded replies to the real response classes and state queries.', "5 C08 / 12.2",
         'reply layouts transcribe the pinned commit; kernel float primitives for amps'),
 "C09": ("proof", 'Theorems for every reply script: the three reply parsers raise only what the API wraps; get_state, get_breeze_state and get_shutter_state end in a response or RuntimeError, write one frame and raise on an empty login reply, two frames otherwise; every type-2 operation and thermostat control raise RuntimeError after the login frame on an empty login reply; successful iff non-empty. Each run drives the real methods with every prefix of valid replies, random and corrupted replies, and all thermostat request shapes with an empty reply at each step.', "5 C09 / 12.2",
         'the exception class each Python primitive raises is the modelled part, validated by the malformed streams'),
 "C10": ("proof", 'Theorems for every zone table: a reply holding whole 16-byte records is parsed record by record with the first record of a slot id winning (C10_list, C10_first_record_wins, C10_one_schedule_per_slot); every whole record with a decodable day mask parses to its id, recurrence flag, day set and local start / end, duration and display never failing (C10_record_always_parses, C10_record); chunking and region lemmas; C10_created_schedule_reads_back: for every zone table, instant, pair of clock times that exist today and non-empty duplicate-free day collection, the values the encoders of create_schedule put into the record (the instants of C11, the mask of C12) are read back from a record holding them, in any slot at any later moment, as exactly that day set and those HH:MM times. Each run: replies built by the Spec encoder parsed by the real code under a virtual clock in several zones and judged by a zoneinfo oracle; create_schedule -> captured record -> listed back.', "5 C10 / 12.2",
         'relative to trusted zone data (TZif); the create/read-back half is the composition of C11 and C12 theorems plus the per-run stream'),
 "C11": ("proof", "Theorems for every zone table, instant and existing minute: the encoder returns a pre-image (mktime modelled as a search "
         "over the zone's offsets) and decode(encode) is the identity; per run 8+ zones x DST dates x minutes under TZ + virtual clock, "
         "judged by zoneinfo.", "5 C11", "libc following the zone table is checked by correspondence only"),
 "C12": ("proof", "Theorems for arbitrary duplicate-free inputs over the regenerated Days table: mask facts, encode (set and sequence "
         "form), decode(encode), rejections; the finite space is enumerated completely on the real code in every run.", "5 C12", ""),
 "C13": ("proof", "Theorems for every zone table, instant, start minute and duplicate-free day set in any order: the text equals the Spec's earliest-future-occurrence choice; the named weekday is selected, 'today' only with the start still ahead, a week ahead only when today's time has passed. Each run: weekday x day-set x minute grids under TZ + virtual clock in several zones, judged with zoneinfo facts.", "5 C13 / 12.2",
         'libc following the zone table is checked by correspondence only'),
 "C14": ("proof", "Theorem for all 1440 x 1440 pairs: duration = H:MM:SS of (end - start) mod 24 h; per run 13 000 pairs (thorough: all 2 073 600) on the real code.", "5 C14", ""),
 "C15": ("proof", "Theorems for every IR set and every request: the remote built from the set has exactly the capabilities present in it (C15_capabilities: modes in first-appearance order, min/max over two-digit keys, toggle, separate swing); build_command returns the code and length field the declarative Spec names - most specific stored key among exact / without swing / without fan level after clamping, 'off' for non-toggle remotes, 'on_' only when a toggle remote changes power state, RuntimeError for an unsupported mode (C15_build_command); loop lemma and LE16 length lemma. Each run: generated IR sets x requests on shared remote objects, built by the real remote (directly and through the remote manager) and compared with model and Spec.", "5 C15 / 12.2",
         'dict / re.match / str.isdigit semantics of the capability scan are modelled (ASCII keys); where none of the three keys is stored the property is silent'),
 "C16": ("proof", "Theorems for every device id, key, clock reading, reply script, reported state and request: update-only writes exactly "
         "login, state query and the Spec's status frame of the merged values (requested, else reported; swing off for separate-swing "
         "remotes); the IR call writes exactly login, state query and the frame of the IR code the C15 Spec chooses for the merged "
         "values, plus a fourth frame with the Spec's swing code iff a separate-swing remote was asked for swing; swing-only writes "
         "login and the swing frame; nothing actionable and an empty login reply raise RuntimeError after the login frame only; for every script, a non-empty (successful) response implies that every reply read was non-empty. "
         "Per run 1000+ (current state, request subset, remote kind, update flag, fault) cases against the real client.", "5 C16",
         "state replies that fail to parse are covered by C09's theorems and the per-run oracle, not by the exactness theorems"),
 "C17": ("proof", "Theorems over all action sequences and port lists of the lifecycle model: running iff all ports held, nothing held when not "
         "running (also after a failed start), delivery iff held; the same for any number of bridge objects in one process, with "
         "non-interference between objects (start, failed start, stop of another object change nothing); and C17_refines_history: for every duplicate-free non-empty port list and action sequence the model's observations, flag and port table are exactly those of the property's own reading of the history (Spec/BridgeHistory.v: start raises and changes nothing when running or a port is taken, stop always ends in not-running with every port given back, a stopped bridge starts again), which is also the extracted oracle every observed trace is compared with; per run every action sequence of length <= 3 on real UDP sockets with "
         "probe binds.", "5 C17", "partial: deferred socket release timing is asyncio's and only exercised"),
 "C18": ("proof", "Theorems over all action sequences of the client lifecycle model (C18_lifecycle; C18_connected_exactly_between: the model refines the property's own reading of a history - connected exactly after a successful connect not yet followed by a disconnect or the end of an async context, the device then holds exactly one open connection, every other accepted connection was seen as end-of-stream); per run every sequence of length <= 3 for both API "
         "classes against a fake device observing the flag, open connections and EOFs.", "5 C18", "partial: GC of abandoned sockets and peer resets are outside the model"),
 "C19": ("proof", "Theorems by exhaustive computation over tables regenerated from the sources on every run (types, categories, class "
         "acceptance obtained by calling the real constructors, port tables).", "5 C19", ""),
}
checks = []
for pid in sorted(P):
    cat, text, ref, note = P[pid]
    checks.append({"property_id": pid, "quick_cmd": "./check %s --tier quick" % pid, "thorough_cmd": "./check %s --tier thorough" % pid,
                   "evidence_file": "evidence/%s.json" % pid, "replay_cmd_template": "./check %s --replay {path}" % pid,
                   "engine": "coq-model", "level_claimed": {"category": cat, "text": text, "design_ref": "DESIGN.md section " + ref},
                   "level_note": COMMON_NOTE + note, "technique": TECH})
m = {"version": 1, "setup_cmd": "./setup.sh",
     "hooks": {"guard": "AIOSWITCHER_VERIF", "enable": "no hooks: every check observes /repo from outside (PYTHONPATH=/repo/src)",
               "baseline_off_cmd": "cd /repo && /venv/bin/python -m pytest -ra -q -p no:cacheprovider --timeout=900 --continue-on-collection-errors",
               "source_commits": [], "add_only": True},
     "engines": [{"name": "coq-model", "path": "coq/ harness/ ocaml/", "serves_properties": sorted(P),
                  "kind_free_text": "Coq 8.16 development (Spec / Model / Proofs / Props), extracted to OCaml and compared with the implementation by harness/check.py"}],
     "checks": checks, "not_applicable": [],
     "notes": "All 19 properties are claimed. known_findings.txt lists nine repaired defects (fix: commits in /repo); no open finding."}
json.dump(m, open(os.path.join(ROOT, "MANIFEST.json"), "w"), indent=1)
print("MANIFEST.json written with", len(checks), "checks")
