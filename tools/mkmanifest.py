"""Writes /verif/MANIFEST.json from one table (kept here so that level texts stay next to each other)."""
import json, os
ROOT = os.path.dirname(os.path.dirname(os.path.abspath(__file__)))
COMMON_NOTE = ("Trusted: Coq 8.16.1 kernel (vm_compute used, native_compute not); no axioms declared, Print Assumptions of every property "
               "theorem is read on each run (closed, or kernel int/float primitives for the amps lemma); the translator "
               "harness/extract_consts.py (constants regenerated from /repo on every run); extraction (ExtrOcamlBasic, ExtrOCamlInt63, "
               "ExtrOCamlFloats; no hand-written directive) + ocaml/driver.ml; the hand-written models of function bodies are tied to the "
               "code by the correspondence streams of each run, not verified. ")
TECH = "Coq theorem over a Gallina model + model/implementation correspondence (extracted OCaml) + Spec oracle on implementation output"
P = {
 "C01": ("proof", "Theorem (kernel-checked, all arguments): frames built from the regenerated templates are well-formed and signed "
         "(reflection over symbolic cells; currently closed for the control frame, the other operations by the same decision procedure "
         "are being added) plus set_message_length / sign lemmas for all inputs; every run re-evaluates the Spec's frame checker on every "
         "frame the real client writes for all 12 operations and compares frame shapes with the model.", "5 C01",
         "partial: per-template instances not yet closed for every operation; the API wiring is modelled"),
 "C02": ("proof", "Theorem: every packet template of the sources equals, piece by piece, an independently written byte layout (15 "
         "templates, re-decided whenever a template changes); the argument encoders have round-trip lemmas; each run compares the real "
         "command frame byte by byte with the Spec's rendering of (operation, arguments) on boundary and random arguments and checks "
         "that rejected arguments raise with only the login frame written.", "5 C02", "partial: the composed statement decode(frame) = arguments is checked per run by the Spec oracle, not yet one theorem"),
 "C03": ("proof", "Theorem about the exchange model (for every reply script the state query writes the login frame first, nothing after "
         "an empty login reply, exactly one command frame otherwise); the model has no state between operations by construction; each run "
         "drives single operations, sequences on one object and two interleaved objects and judges every frame with the Spec's shape "
         "checker (login credential, session of this login, timestamp, device id, frame count).", "5 C03",
         "partial: real asyncio scheduling and absence of hidden Python state are tested, not modelled"),
 "C04": ("proof", "Theorems for every hex string: sign(p) = p ++ hex(double CRC) with the bit-serial CRC-16/CCITT as Spec, table-driven "
         "crc_hqx proved equal to it, rejection of non-hex input; per run the extracted model and Spec are compared with "
         "sign_packet_with_crc_key and binascii.crc_hqx.", "5 C04", "crc_hqx of CPython is modelled by its table-driven algorithm"),
 "C05": ("proof", "Theorem: parse(encode(description)) = description for the thermostat broadcast for all field values and all filler "
         "bytes, amps lemma for all 65536 wattages on the bit-exact float model; per run the Spec encoder for all 9 device types feeds "
         "the real parser directly and through a running bridge and every field is compared.", "5 C05", "partial: round-trip theorem closed for the thermostat family; the other families by correspondence + Spec oracle"),
 "C06": ("proof", "Theorems for every byte string: the gate is exactly magic + three lengths, anything else is Ignored, an accepted frame "
         "with an unknown model code is Warned; per run every length 0..400, mutated captures and model codes are fed to the real parser "
         "and a running bridge observing callbacks, warnings and the loop exception handler.", "5 C06", ""),
 "C07": ("proof", "Theorem over all event sequences, ports and raising patterns of the dispatch model: the callback log is exactly the "
         "valid broadcasts once each in order, per port, independent of everything else; per run sequences are sent to a real bridge "
         "over loopback UDP with raising callbacks.", "5 C07", "partial: event-loop isolation of callback exceptions and UDP FIFO are runtime facts exercised, not modelled"),
 "C08": ("proof", "Theorem: parse(encode(fields)) = fields for the type-1 state reply for all values and filler; per run Spec encoders of "
         "all four reply kinds feed the real response classes and the three state queries.", "5 C08", "partial: round-trip theorem closed for the type-1 reply; shutter / thermostat / login by correspondence + Spec oracle"),
 "C09": ("proof", "Theorems for every reply: the type-1 parser raises only KeyError / ValueError (OverflowError unreachable from 4-byte "
         "fields), so the state query ends in a response or RuntimeError; empty login reply writes one frame and raises; per run every "
         "prefix of valid replies, random and corrupted replies at every step of all operations.", "5 C09", "partial: totality theorem closed for the type-1 query; the exception class of each Python primitive is modelled"),
 "C10": ("proof", "Theorems for every zone table: a whole record parses to its id, recurrence, day set, local start and end; chunking and "
         "region lemmas; per run replies built by the Spec encoder are parsed by the real code under a virtual clock in several zones and "
         "judged by a zoneinfo oracle; create -> list-back round trips.", "5 C10", "relative to trusted zone data (TZif)"),
 "C11": ("proof", "Theorems for every zone table, instant and existing minute: the encoder returns a pre-image (mktime modelled as a search "
         "over the zone's offsets) and decode(encode) is the identity; per run 8+ zones x DST dates x minutes under TZ + virtual clock, "
         "judged by zoneinfo.", "5 C11", "libc following the zone table is checked by correspondence only"),
 "C12": ("proof", "Theorems for arbitrary duplicate-free inputs over the regenerated Days table: mask facts, encode (set and sequence "
         "form), decode(encode), rejections; the finite space is enumerated completely on the real code in every run.", "5 C12", ""),
 "C13": ("proof", "Theorem: for every weekday, flag and duplicate-free selection in any order the day choice equals the Spec's earliest "
         "future occurrence; per run weekday x day-set x minute grids under TZ + virtual clock in several zones, judged with zoneinfo facts.", "5 C13", "text wrapper and clock reading are tied by correspondence"),
 "C14": ("proof", "Theorem for all 1440 x 1440 pairs: duration = H:MM:SS of (end - start) mod 24 h; per run 13 000 pairs (thorough: all 2 073 600) on the real code.", "5 C14", ""),
 "C15": ("proof", "Theorems: the pop loop returns the most specific stored prefix for every key list and set; the length field is LE16; "
         "per run generated IR sets x requests are built by the real remote and compared with the model and a declarative Spec (search "
         "over the set, clamp, off / on_ rules, capabilities).", "5 C15", "partial: build_command = Spec is checked per run by the oracle, not yet one theorem"),
 "C16": ("proof", "Theorems for every reply script: nothing actionable and empty login reply raise RuntimeError after the login frame only; "
         "set_message_length writes the final length; per run 1000+ (current state, request subset, remote kind, update flag, fault) cases "
         "against the real client, expected frames composed from the Spec layouts and the Spec's IR choice.", "5 C16", "partial: merge-and-frames is checked per run by the oracle"),
 "C17": ("proof", "Theorem over all action sequences and port lists of the lifecycle model: running iff all ports held, nothing held when not "
         "running (also after a failed start), delivery iff held; per run every action sequence of length <= 3 on real UDP sockets with "
         "probe binds.", "5 C17", "partial: deferred socket release timing is asyncio's and only exercised"),
 "C18": ("proof", "Theorem over all action sequences of the client lifecycle model; per run every sequence of length <= 3 for both API "
         "classes against a fake device observing the flag, open connections and EOFs.", "5 C18", "partial: GC of abandoned sockets and peer resets are outside the model"),
 "C19": ("proof", "Theorems by exhaustive computation over tables regenerated from the sources on every run (types, categories, class "
         "acceptance obtained by calling the real constructors, port tables).", "5 C19", ""),
}
checks = []
for pid in sorted(P):
    cat, text, ref, note = P[pid]
    checks.append({"property_id": pid, "quick_cmd": "./check %s --tier quick" % pid, "thorough_cmd": "./check %s --tier thorough" % pid,
                   "evidence_file": "evidence/%s.json" % pid, "replay_cmd_template": "./check %s --replay {path}" % pid,
                   "engine": "coq-model", "level_claimed": {"category": cat, "text": text, "design_ref": "DESIGN.md section " + ref},
                   "level_note": COMMON_NOTE + note, "technique": TECH})
m = {"version": 1, "setup_cmd": "./setup.sh",
     "hooks": {"guard": "AIOSWITCHER_VERIF", "enable": "no hooks: every check observes /repo from outside (PYTHONPATH=/repo/src)",
               "baseline_off_cmd": "cd /repo && /venv/bin/python -m pytest -ra -q -p no:cacheprovider --timeout=900 --continue-on-collection-errors",
               "source_commits": [], "add_only": True},
     "engines": [{"name": "coq-model", "path": "coq/ harness/ ocaml/", "serves_properties": sorted(P),
                  "kind_free_text": "Coq 8.16 development (Spec / Model / Proofs / Props), extracted to OCaml and compared with the implementation by harness/check.py"}],
     "checks": checks, "not_applicable": [],
     "notes": "All 19 properties are claimed. known_findings.txt lists nine repaired defects (fix: commits in /repo); no open finding."}
json.dump(m, open(os.path.join(ROOT, "MANIFEST.json"), "w"), indent=1)
print("MANIFEST.json written with", len(checks), "checks")
