"""Rewrites the table of seeded changes in DESIGN.md (between the SEEDTABLE markers) from seeded/*/meta.json."""
import glob, json, os, re
ROOT = os.path.dirname(os.path.dirname(os.path.abspath(__file__)))
rows = []
for d in sorted(glob.glob(os.path.join(ROOT, "seeded", "C*-*")), key=lambda p: (p.split("/")[-1].split("-")[0], int(p.split("-")[-1]))):
    m = json.load(open(d + "/meta.json"))
    note = re.sub(r"\s+", " ", m.get("needs", "")).replace("|", "/").replace("**", "")
    rows.append("| %s | %s | %s | %s |" % (os.path.basename(d), "yes" if m["confirmed"] else "no (see text)", ", ".join(m["caught_by"]) or "-", note[:300].rsplit(" ", 1)[0]))
table = "| seed | confirmed | caught by (quick tier) | what it is / what it needs to manifest (seeder's notes, abridged) |\n|---|---|---|---|\n" + "\n".join(rows) + "\n"
p = os.path.join(ROOT, "DESIGN.md"); s = open(p).read()
a = s.index("<!-- SEEDTABLE -->"); b = s.index("<!-- /SEEDTABLE -->")
s = s[:a] + "<!-- SEEDTABLE -->\n" + table + s[b:]
open(p, "w").write(s)
print(len(rows), "seeds listed;", sum(1 for r in rows if "| yes |" in r), "confirmed")
