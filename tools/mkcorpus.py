"""Writes the regression corpus: the witnesses of the nine repaired defects (known_findings.txt), in the input format of each
property's check.  They run first in every check; a defect that returns is reported as a VIOLATION again."""
import json, os, datetime as D, zoneinfo
ROOT = os.path.dirname(os.path.dirname(os.path.abspath(__file__)))
def put(prop, name, inp, note):
    d = os.path.join(ROOT, "corpus", prop); os.makedirs(d, exist_ok=True)
    json.dump({"input": inp, "note": note}, open(os.path.join(d, name + ".json"), "w"), indent=1, ensure_ascii=False)
LOGIN = "0011223344556677" + "a1b2c3d4" + "00" * 12
def op(kind, args, replies=None, now=1700000000):
    return {"kind": kind, "args": args, "id": "ab1c2d", "key": "18", "now": now, "replies": replies or [LOGIN, "01"]}
def irset(rid, onoff, waves): return {"IRSetID": rid, "OnOffType": onoff, "IRWaveList": [{"Key": k, "Para": p, "HexCode": h} for k, p, h in waves]}
THERMO = "00" * 76 + "ff00" + "01" + "04" + "19" + "10" + "0000" + "454c454337303031" + "00" * 10     # on, COOL, 25, LOW, swing off
long_set = irset("ELEC7001", 0, [("ar25_f1", "P", "AB" * 130), ("off", "P", "CD")])
short_set = irset("ELEC7001", 0, [("ar25_f1", "P", "ABCDEF"), ("off", "P", "C")])
breeze = lambda s, st=True: op(12, [s, st, "COOL", 25, "LOW", False, False], [LOGIN, THERMO, "0102", "03"])
# F1: frame of 260+ bytes; F2: payload of 12 bytes ("off": 0000 + "P|C" = 7 bytes; ar25: 4+8 = 12 bytes) and > 255 bytes
CUR = {"cur": {"on": 1, "mode": 4, "target": 25, "fan": 1, "swing": 0}, "fault_at": None}     # what THERMO reports (C16's case format)
for p in ("C01", "C16"):
    put(p, "f1-long-ir-frame", breeze(long_set) | CUR, "F1/F2: IR text of 262 bytes: total frame beyond 255 bytes, payload length beyond 255")
    put(p, "f2-12-byte-payload", breeze(short_set) | CUR, "F2: payload of exactly 12 bytes (length field c000 before the repair)")
put("C15", "f2-12-byte-payload", {"irset": short_set, "q": [True, "COOL", 25, "LOW", False, None]}, "F2")
put("C15", "f2-long-payload", {"irset": long_set, "q": [True, "COOL", 25, "LOW", False, None]}, "F2")
put("C15", "f2-off-7-byte-payload", {"irset": short_set, "q": [False, "COOL", 25, "LOW", False, None]}, "F2: payload below 16 bytes")
# F3: multi-byte names
for p in ("C01", "C02"):
    put(p, "f3-hebrew-name", op(3, ["שלום עולם"]), "F3: 9 characters, 17 bytes")
    put(p, "f3-32-hebrew-letters", op(3, ["א" * 32]), "F3: 32 characters, 64 bytes: must be refused")
    put(p, "f3-16-hebrew-letters", op(3, ["א" * 16]), "F3: exactly 32 bytes")
# F9: malformed clock strings
for s in ("21:00:30", "21:00:xx", " 21:00"):
    put("C02", "f9-clock-" + s.strip().replace(":", "_"), op(6, [s, "22:00", [0], "set"]), "F9: accepted as 21:00 before the repair")
    put("C11", "f9-clock-" + s.strip().replace(":", "_") + ("-lead" if s.startswith(" ") else ""), {"zone": "UTC", "now": 1700000000, "s": s}, "F9")
# F4: type-2 MAC offset — the two captures of the repository are in the captures stream; one encoded description each
desc = lambda ty: [ty, 1, "3a20b7", 0, "Switcher Breeze_5679".encode().hex(), "c0a80157", "bcff4d4a5679", 0, 0, 0, 42, "SHUTTER_STOP", "COOL", 255, 23, "LOW", 0, "454c454337303232"]
put("C05", "f4-breeze-mac", {"desc": desc("BREEZE"), "filler": "4d" * 170}, "F4: MAC at bytes 81-86; filler 4d exposes an off-by-one")
put("C05", "f4-runner-mac", {"desc": desc("RUNNER"), "filler": "62" * 170}, "F4")
# F5: unknown model code
unk = bytearray(bytes.fromhex("fef0" + "00" * 163)); unk[74:76] = b"\xee\xee"
put("C06", "f5-unknown-model", {"d": bytes(unk).hex()}, "F5: KeyError before the repair")
unk[133] = 1
put("C06", "f5-unknown-model-on", {"d": bytes(unk).hex()}, "F5")
# F6 / F7
tz = zoneinfo.ZoneInfo("Asia/Jerusalem")
thu = int(D.datetime(2023, 6, 15, 1, 30, 5, tzinfo=tz).timestamp())       # Thursday 01:30 local = Wednesday 22:30 UTC
put("C13", "f6-utc-vs-local", {"zone": "Asia/Jerusalem", "now": thu, "start": "02:00", "days": [3]}, "F6: Thursday 02:00 schedule, Thursday 01:30 local")
wed = int(D.datetime(2023, 6, 14, 15, 0, 5, tzinfo=D.timezone.utc).timestamp())
put("C13", "f7-wed-fri", {"zone": "UTC", "now": wed, "start": "13:00", "days": [2, 4]}, "F7: must be next Friday")
put("C13", "f7-wed-thu", {"zone": "UTC", "now": wed, "start": "13:00", "days": [2, 3]}, "F7: must be tomorrow")
sun = int(D.datetime(2023, 6, 18, 15, 0, 5, tzinfo=D.timezone.utc).timestamp())
put("C13", "f7-sun-mon", {"zone": "UTC", "now": sun, "start": "13:00", "days": [6, 0]}, "F7: must be tomorrow")
# F8
put("C17", "f8-second-port-occupied", {"ports": 2, "acts": [[2, 1], [0, 0], [4, 0], [3, 1], [0, 0], [1, 0]]}, "F8: start with port 2 occupied must leave port 1 free")
print("corpus written")
