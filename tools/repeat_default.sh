#!/bin/sh
# run inside `vp run --with-repo`: every quick check on the unchanged tree with the DEFAULT seed, several times over, eight at a time
# (timing, sockets and threads are what vary between the repetitions); prints anything that is not "held"
AS_REPO=${VP_RUN_REPO:-/repo}; export AS_REPO
./setup.sh | tail -1
for i in $(seq 1 ${REPEATS:-6}); do
  for p in C01 C02 C03 C04 C05 C06 C07 C08 C09 C10 C11 C12 C13 C14 C15 C16 C17 C18 C19; do echo $p; done | \
    xargs -P 8 -I{} sh -c 'out=$(./check {} --tier quick 2>&1); rc=$?; if [ $rc -ne 0 ]; then echo "repetition '$i' {} rc=$rc"; echo "$out" | tail -5 | cut -c1-400; fi'
  echo "repetition $i done"
done
