#!/bin/sh
# Independent re-check of the whole compiled development with coqchk (about 7 minutes, 4 GB).
# Writes coqchk/summary.txt: the context summary (axioms of every loaded library, type-in-type, unsafe fixpoints, assumed positivity).
set -e
cd "$(dirname "$0")/../coq"
mods=""
for f in theories/Props/C*.v; do mods="$mods AS.Props.$(basename "$f" .v)"; done
timeout 3600 coqchk -o -silent -Q theories AS $mods AS.Props.Examples AS.Extract.Entry > ../coqchk/full.out 2>&1
awk '/CONTEXT SUMMARY/{f=1} f{print}' ../coqchk/full.out > ../coqchk/summary.txt
rm -f ../coqchk/full.out
grep -c . ../coqchk/summary.txt
