#!/bin/sh
# run inside `vp run`: full setup, then every thorough check on the unchanged tree; prints one line per check
AS_REPO=${VP_RUN_REPO:-/repo}; export AS_REPO      # vp run --with-repo: the run's own copy of the repository
./setup.sh | tail -1
for p in C01 C02 C03 C04 C05 C06 C07 C08 C09 C10 C11 C12 C13 C14 C15 C16 C17 C18 C19; do
  s=$(date +%s); out=$(./check $p --tier thorough 2>&1); rc=$?; e=$(date +%s)
  echo "$p rc=$rc $((e-s))s $(echo "$out" | tail -1 | cut -c1-200)"
done
