"""One-off generator of Props/Cxx.v skeletons: copies the statement of each named lemma from Proofs/ into the
property file under the property's theorem name, closed by `exact lemma`.  (The generated files are then
maintained by hand.)"""
import re, sys, os
T = "/verif/coq/theories"
def statement(file, name):
    src = open(os.path.join(T, "Proofs", file + ".v")).read()
    m = re.search(r"(?:Theorem|Lemma)\s+" + name + r"\b(.*?)\nProof\.", src, re.S)
    assert m, (file, name)
    return m.group(1).rstrip()
def scope_at(file, name):
    src = open(os.path.join(T, "Proofs", file + ".v")).read()
    pos = re.search(r"(?:Theorem|Lemma)\s+" + name + r"\b", src).start()
    sc = re.findall(r"Open Scope (\w+)\.", src[:pos])
    return sc[-1] if sc else None
def binders(st):
    """names bound before the top-level colon of a statement header"""
    depth = 0; names = []; i = 0; cur = ""
    hdr = ""
    for ch in st:
        if ch in "({": depth += 1
        elif ch in ")}": depth -= 1
        elif ch == ":" and depth == 0: break
        hdr += ch
    for m in re.finditer(r"\(([^():]+):[^()]*(?:\([^()]*\)[^()]*)*\)|\{[^}]*\}|(\w+)", hdr):
        if m.group(1): names += m.group(1).split()
        elif m.group(2): names.append(m.group(2))
    return names
def emit(prop, title, imports, items, extra=""):
    out = ["(* %s — %s *)" % (prop, title), "Require Import " + " ".join(imports) + ".", ""]
    for comment, new, file, lemma in items:
        if comment: out.append("(* " + comment + " *)")
        sc = scope_at(file, lemma)
        if sc: out.append("Local Open Scope %s." % sc)
        out.append("Theorem %s%s" % (new, statement(file, lemma)))
        out.append("Proof. exact (%s). Qed." % " ".join([lemma] + binders(statement(file, lemma))))
        out.append("Print Assumptions %s." % new)
        if sc: out.append("Local Close Scope %s." % sc)
        out.append("")
    out.append(extra)
    open(os.path.join(T, "Props", prop + ".v"), "w").write("\n".join(out))
B = "AS.Base.Prelude AS.Base.Hex AS.Base.Dec".split()
emit("C03", "Every operation logs in first and binds its commands to that login's session",
     B + "AS.Base.Template AS.Base.Exchange AS.Gen.Extracted AS.Model.DeviceTools AS.Model.Messages AS.Model.Remotes AS.Model.Api AS.Proofs.ApiProofs".split(),
     [("partial (one operation): for every script of device replies the type-1 state query writes the login frame first, nothing else on an empty login reply, and exactly one command frame otherwise", "C03_get_state_frames_partial", "ApiProofs", "get_state_exchange")])
emit("C05", "A status broadcast is decoded into exactly the device the sender described",
     B + "AS.Base.Utf8 AS.Base.Float AS.Gen.Extracted AS.Model.Messages AS.Model.Bridge AS.Spec.Encoders AS.Proofs.BridgeProofs AS.Proofs.BroadcastProofs AS.Proofs.FloatProofs".split(),
     [("partial (thermostat family): parse o encode = identity for every field value and every filler byte", "C05_breeze_roundtrip_partial", "BroadcastProofs", "breeze_roundtrip"),
      ("amps = watts / 220 to one decimal, for every 16-bit wattage (bit-exact float model)", "C05_amps", "FloatProofs", "amps_ok")])
emit("C06", "Only genuine Switcher broadcasts are accepted; anything else is ignored quietly",
     B + "AS.Gen.Extracted AS.Model.Bridge AS.Proofs.BridgeProofs".split(),
     [("the gate, for every byte string", "C06_gate", "BridgeProofs", "originator_iff"),
      ("whatever fails the gate is ignored: no device, no warning, no exception", "C06_ignored", "BridgeProofs", "not_originator_ignored"),
      ("an accepted frame with an unknown model code: a warning, no device, no exception", "C06_unknown_model", "BridgeProofs", "unknown_model_warned")])
emit("C07", "The bridge delivers each valid broadcast once, in order, whatever else arrives",
     B + "AS.Model.Bridge AS.Proofs.DispatchProofs".split(),
     [("for every event sequence on any ports and every pattern of raising callbacks (event loop modelled as: an exception leaving datagram_received is recorded and the next datagram is processed)", "C07_exactly_once_in_order", "DispatchProofs", "C07_calls"),
      ("per port, independent of the other ports", "C07_per_port_independent", "DispatchProofs", "C07_per_port")])
emit("C08", "State replies are decoded into exactly what the device reported",
     B + "AS.Model.Messages AS.Spec.Encoders AS.Proofs.MessagesProofs".split(),
     [("partial (type-1 state reply): parse o encode = identity for all field values and all filler", "C08_state_reply_roundtrip_partial", "MessagesProofs", "state_reply_roundtrip")])
emit("C09", "No device reply can crash the client or be mistaken for success",
     B + "AS.Base.Template AS.Base.Exchange AS.Gen.Extracted AS.Model.DeviceTools AS.Model.Messages AS.Model.Remotes AS.Model.Api AS.Proofs.TotalityProofs AS.Proofs.ApiProofs".split(),
     [("the type-1 reply parser raises nothing but KeyError / ValueError, for every reply", "C09_parser_exceptions", "TotalityProofs", "parse_state_reply_exn"),
      ("partial (type-1 state query): for every reply script the call returns a response or raises RuntimeError; one frame on an empty login reply", "C09_get_state_total_partial", "ApiProofs", "get_state_exchange"),
      ("thermostat control on an empty login reply: RuntimeError and no further frame", "C09_breeze_empty_login", "ApiProofs", "breeze_empty_login")])
emit("C10", "Listed schedules decode exactly; a created schedule reads back unchanged",
     B + "AS.Gen.Extracted AS.Model.ScheduleTools AS.Model.NextRun AS.Model.ScheduleParser AS.Spec.Encoders AS.Proofs.ScheduleParserProofs".split(),
     [("one whole record, every zone table: id, recurrence, day set, local start and end are what the record holds", "C10_record", "ScheduleParserProofs", "parse_record"),
      ("chunking the region of whole records gives back the records", "C10_chunks", "ScheduleParserProofs", "chunks_records"),
      ("the record region of a reply", "C10_region", "ScheduleParserProofs", "schedule_region")])
emit("C11", "Clock times survive encoding and decoding in every time zone and on every date",
     B + "AS.Model.ScheduleTools AS.Model.ScheduleParser AS.Model.Clock AS.Proofs.ClockProofs".split(),
     [("for every zone table: mktime (modelled as a search over the zone's offsets) returns a pre-image whenever the wall-clock time exists", "C11_mktime_finds", "ClockProofs", "mktime_finds"),
      ("round trip, every zone table, every instant, every existing minute of today", "C11_roundtrip", "ClockProofs", "clock_roundtrip")])
emit("C13", "The next-run text names the earliest upcoming run of the schedule",
     ["AS.Base.Prelude", "AS.Model.NextRun", "AS.Spec.NextRun", "AS.Proofs.NextRunProofs"],
     [("day choice = earliest future occurrence, for every weekday, flag and duplicate-free selection in any order", "C13_choice", "NextRunProofs", "next_run_core_correct")])
emit("C15", "The IR command built is the stored code that best matches the request",
     B + "AS.Model.DeviceTools AS.Model.Remotes AS.Spec.IrChoice AS.Proofs.RemotesProofs AS.Proofs.LengthProofs".split(),
     [("the pop loop returns the most specific stored prefix of the key list, else its first part", "C15_lookup_is_most_specific", "RemotesProofs", "lookup_key_is_choice"),
      ("the payload length field is the little-endian 16-bit byte count", "C15_length_field", "LengthProofs", "breeze_command_length_ok")])
emit("C16", "Thermostat control changes only what was asked",
     B + "AS.Base.Template AS.Base.Exchange AS.Gen.Extracted AS.Model.DeviceTools AS.Model.Messages AS.Model.Remotes AS.Model.Api AS.Proofs.ApiProofs AS.Proofs.LengthProofs".split(),
     [("nothing actionable: RuntimeError after the login frame only, whatever the device answers", "C16_nothing_actionable", "ApiProofs", "breeze_nothing_actionable"),
      ("empty login reply: RuntimeError, no further frame", "C16_empty_login", "ApiProofs", "breeze_empty_login"),
      ("the frame length written by set_message_length is the final length", "C16_frame_length", "LengthProofs", "set_message_length_ok")])
emit("C17", "The bridge listens exactly while running and leaves nothing behind",
     ["AS.Base.Prelude", "AS.Model.Lifecycle", "AS.Proofs.LifecycleProofs"],
     [("for all action sequences and all port lists", "C17_lifecycle", "LifecycleProofs", "C17_model")])
emit("C18", "The TCP client is connected exactly between connect and disconnect",
     ["AS.Base.Prelude", "AS.Model.Lifecycle", "AS.Proofs.LifecycleProofs"],
     [("for all action sequences", "C18_lifecycle", "LifecycleProofs", "C18_model")])
