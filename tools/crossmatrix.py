"""Cross-property matrix: apply every seeded change to a scratch copy of the repository and run every quick check against it.
Run inside `vp run --with-repo`: uses $VP_RUN_REPO as the repository (AS_REPO) and the snapshot's own /verif copy.
Writes crossmatrix.json: {seed: {property: verdict}}."""
import json, os, subprocess, sys, time
here = os.path.dirname(os.path.dirname(os.path.abspath(__file__)))
repo = os.environ.get("VP_RUN_REPO") or sys.exit("needs VP_RUN_REPO")
env = dict(os.environ, AS_REPO=repo)
def sh(cmd, **kw): return subprocess.run(cmd, shell=True, capture_output=True, text=True, **kw)
print(sh("./setup.sh", cwd=here, env=dict(env, PYTHONPATH=repo + "/src")).stdout[-300:], flush=True)
props = ["C%02d" % i for i in range(1, 20)]
seeds = sorted(d for d in os.listdir(os.path.join(here, "seeded")) if os.path.exists(os.path.join(here, "seeded", d, "patch.diff")))
if os.environ.get("CROSS_VARIANTS"):          # e.g. "7,8,9,10": only these variants of every property
    want = set(os.environ["CROSS_VARIANTS"].split(",")); seeds = [d for d in seeds if d.split("-")[1] in want]
only = sys.argv[1:] or seeds
if len(only) == 1 and "/" in only[0]:            # "k/n": the k-th of n slices of the seed list
    k, n = map(int, only[0].split("/")); only = seeds[k::n]
out_name = "crossmatrix-%s.json" % sys.argv[1].replace("/", "of") if len(sys.argv) == 2 and "/" in sys.argv[1] else "crossmatrix.json"
res = {}
base = {}
for p in props:
    r = sh("./check %s --tier quick" % p, cwd=here, env=env); base[p] = r.returncode
print("unchanged tree:", base, flush=True)
res["unchanged"] = base
for s in seeds:
    if s not in only: continue
    a = sh("git -C %s apply %s" % (repo, os.path.join(here, "seeded", s, "patch.diff")))
    if a.returncode: print(s, "patch does not apply", a.stderr[:200]); continue
    row = {}
    t0 = time.time()
    def one(p):
        r = sh("timeout 1500 ./check %s --tier quick" % p, cwd=here, env=env)
        v = [l for l in r.stdout.split("\n") if l.startswith("VIOLATION")]
        return p, ("no-failing-input" if v and "no-failing-input-found" in v[0] else "VIOLATION") if r.returncode == 1 else ("held" if r.returncode == 0 else "error %d" % r.returncode)
    from concurrent.futures import ThreadPoolExecutor
    with ThreadPoolExecutor(4) as ex:
        for p, v in ex.map(one, props): row[p] = v
    sh("git -C %s checkout -- ." % repo)
    res[s] = row
    print(s, "%.0fs" % (time.time() - t0), {p: v for p, v in row.items() if v != "held"}, flush=True)
    json.dump(res, open(os.path.join(here, out_name), "w"), indent=1)
