"""Confirm a seeded change and run the checks against it.
usage: seedcheck.py <Cxx> <k> [extra properties to check,...]
1. in the scratch worktree /tmp/seed/<Cxx>: demo passes on the clean tree; with the patch the baseline tests still pass and the demo fails
2. apply the patch to /repo, run ./check for the property (and any extra ones), undo
3. store patch, demo, notes and meta.json under /verif/seeded/<Cxx>-<k>/"""
import json, os, shutil, subprocess, sys, xml.etree.ElementTree as ET
pid, k = sys.argv[1], sys.argv[2]
extra = sys.argv[3].split(",") if len(sys.argv) > 3 else []
round_ = int(os.environ.get("SEED_ROUND", "1"))
src = "/tmp/seed/out%s/%s/%s" % ("" if round_ == 1 else str(round_), pid, k); wt = "/tmp/seed/" + pid
label = str(int(k) + 2 * (round_ - 1))
env = dict(os.environ, PYTHONPATH=wt + "/src", PYTHONHASHSEED="0")
def sh(cmd, **kw): return subprocess.run(cmd, shell=True, capture_output=True, text=True, **kw)
def demo():
    p = sh("timeout 300 /venv/bin/python %s/demo.py" % src, env=env, cwd=src); return p.returncode, (p.stdout + p.stderr).strip()[-400:]
def passed_tests():
    sh("timeout 900 /venv/bin/python -m pytest -q -p no:cacheprovider --timeout=900 --junitxml=%s/junit.xml" % src, env=env, cwd=wt)
    root = ET.parse("%s/junit.xml" % src).getroot(); ok = set()
    for tc in root.iter("testcase"):
        if not any(c.tag in ("failure", "error", "skipped") for c in tc): ok.add(tc.get("classname") + "::" + tc.get("name"))
    return ok
base = set(json.load(open("/root/.vp/BASELINE.json"))["stable_pass"])
import datetime
if datetime.datetime.utcnow().hour == 23:      # this baseline test fails by construction between 23:00 and 23:59 UTC, with or without any change
    base.discard("tests.test_schedule_tools::test_pretty_next_run_with_todays_day_should_return_due_today")
meta = {"property": pid, "variant": label, "seeding_round": round_}
sh("git -C %s checkout -- ." % wt)
rc0, out0 = demo(); meta["demo_on_clean_tree"] = {"exit": rc0, "tail": out0[-200:]}
a = sh("git -C %s apply %s/patch.diff" % (wt, src)); meta["patch_applies"] = a.returncode == 0
ok = passed_tests()
if base - ok: ok |= passed_tests()         # two baseline tests are time-of-day flaky (minute roll-over); a second run settles them
meta["baseline_tests_still_passing"] = len(base & ok); meta["baseline_tests_lost"] = sorted(base - ok)
rc1, out1 = demo(); meta["demo_with_change"] = {"exit": rc1, "tail": out1[-300:]}
sh("git -C %s checkout -- ." % wt)
meta["confirmed"] = bool(rc0 == 0 and rc1 != 0 and meta["patch_applies"] and not (base - ok))
results = {}
if meta["confirmed"]:
    assert sh("git -C /repo status --porcelain").stdout.strip() == "", "/repo not clean"
    try:
        assert sh("git -C /repo apply %s/patch.diff" % src).returncode == 0
        for p in [pid] + extra:
            import time; t0 = time.time()
            r = sh("timeout 1800 ./check %s --tier quick" % p, cwd="/verif", env=dict(os.environ, VERIF_EVIDENCE_DIR="/verif/build/seed-evidence"))
            lines = [l for l in r.stdout.split("\n") if l.strip()]
            results[p] = {"exit": r.returncode, "verdict": next((l for l in lines if l.startswith("VIOLATION")), lines[-1] if lines else ""),
                          "first_lines": lines[:4], "wall_s": round(time.time() - t0, 1)}
    finally:
        sh("git -C /repo checkout -- .")
meta["checks_with_change_applied"] = results
meta["caught_by"] = [p for p, r in results.items() if r["exit"] == 1]
meta["needs"] = open(src + "/notes.md").read().strip() if os.path.exists(src + "/notes.md") else ""
meta["ran"] = ["PYTHONPATH=<worktree>/src python demo.py on the clean worktree and with the patch",
               "pytest in the worktree with the patch, passed set compared with BASELINE.json stable_pass",
               "git -C /repo apply patch.diff; ./check <property> --tier quick; git -C /repo checkout -- ."]
dst = "/verif/seeded/%s-%s" % (pid, label); os.makedirs(dst, exist_ok=True)
for f in ("patch.diff", "demo.py", "notes.md"):
    if os.path.exists(os.path.join(src, f)): shutil.copy(os.path.join(src, f), dst)
json.dump(meta, open(dst + "/meta.json", "w"), indent=1)
print(pid, label, "confirmed" if meta["confirmed"] else "NOT CONFIRMED", "| caught by:", meta["caught_by"], "|", {p: r["verdict"][:110] for p, r in results.items()})
