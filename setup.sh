#!/bin/sh
# Full clean build of the Coq development, the extracted model binaries and a self test.  Offline.
set -e
here=$(cd "$(dirname "$0")" && pwd)
cd "$here"
exec env PYTHONPATH=/repo/src PYTHONHASHSEED=0 TZ=UTC /venv/bin/python harness/setup.py "$@"
